#!/bin/bash
# run-seed.sh <seed-id> <check ids...> : apply seeded/<id>/patch.diff to /repo, run the quick checks, undo
id=$1; shift
cd /verif
git -C /repo apply /verif/seeded/$id/patch.diff || { echo "patch does not apply"; exit 3; }
for c in "$@"; do
  bin/check $c quick > /verif/.cache/seedrun_${id}_$c.txt 2>&1; rc=$?
  echo "$(date -u +%FT%TZ) bin/check $c quick exit=$rc; $(grep -c '^VIOLATION' /verif/.cache/seedrun_${id}_$c.txt) VIOLATION lines; $(tail -1 /verif/.cache/seedrun_${id}_$c.txt)" >> /verif/seeded/$id/checks_run.txt
  echo "$id $c exit=$rc $(grep -c '^VIOLATION' /verif/.cache/seedrun_${id}_$c.txt) violation lines; $(tail -1 /verif/.cache/seedrun_${id}_$c.txt)"
done
git -C /repo checkout -- .
