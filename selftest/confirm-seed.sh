#!/bin/bash
# confirm-seed.sh <worktree> <seed-id> : confirm an independently produced seeded defect in its own scratch worktree
#   (tests pass with it, demo fails with it, demo passes without it), keep it as /verif/seeded/<seed-id>/ and
#   remove the worktree.  Does not touch /repo.
set -u
wt=$1; id=$2
out=/verif/seeded/$id; mkdir -p $out
cd $wt || exit 2
[ -f seed/patch.diff ] || { echo "no seed/patch.diff"; exit 2; }
log=$out/confirm.log; : > $log
# make sure the tree has exactly the patch applied
git checkout -q -- source include 2>/dev/null
git apply seed/patch.diff || { echo "patch does not apply to clean tree" | tee -a $log; exit 2; }
cmake --build _build >> $log 2>&1 || { echo "build with patch failed" | tee -a $log; exit 2; }
ctest --test-dir _build -j8 --timeout 900 > $out/ctest_with_patch.txt 2>&1
failed=$(grep -E "^\s+[0-9]+ - " $out/ctest_with_patch.txt | grep -v grid_fault_edge_limits | wc -l)
passed=$(grep -E "tests passed" $out/ctest_with_patch.txt)
echo "with patch: $passed ; unexpected failures: $failed" | tee -a $log
(cd seed && timeout 600 bash run_demo.sh) > $out/demo_with_patch.txt 2>&1; rc1=$?
echo "demo with patch: exit $rc1" | tee -a $log
git apply -R seed/patch.diff
cmake --build _build >> $log 2>&1
(cd seed && timeout 600 bash run_demo.sh) > $out/demo_without_patch.txt 2>&1; rc0=$?
echo "demo without patch: exit $rc0" | tee -a $log
cp seed/patch.diff $out/patch.diff
for f in seed/*; do case $f in seed/patch.diff) ;; *) [ -f $f ] && [ $(stat -c %s $f) -lt 200000 ] && cp $f $out/ ;; esac; done
if [ $failed -eq 0 ] && [ $rc1 -ne 0 ] && [ $rc0 -eq 0 ]; then echo CONFIRMED | tee -a $log; else echo NOT-CONFIRMED | tee -a $log; fi
cd /
git -C /repo worktree remove --force $wt
