#!/usr/bin/env python3
"""Adds to every seeded/<id>/meta.json what was run here (confirmation in the scratch worktree, checks against /repo)."""
import glob, json, os
for d in sorted(glob.glob('/verif/seeded/*')):
    mp = os.path.join(d, 'meta.json')
    try: m = json.load(open(mp))
    except Exception: m = {}
    sid = os.path.basename(d)
    m.setdefault("property", sid.split('-')[0])
    conf = open(os.path.join(d, 'confirm.log')).read().strip().splitlines() if os.path.exists(os.path.join(d, 'confirm.log')) else []
    m["confirmed_here"] = {"how": "selftest/confirm-seed.sh in the seed's own scratch worktree: build with the patch, ctest, demonstration with and without the patch",
                           "log": [l for l in conf if l.startswith(("with patch", "demo", "CONFIRMED", "NOT"))]}
    runs = open(os.path.join(d, 'checks_run.txt')).read().strip().splitlines() if os.path.exists(os.path.join(d, 'checks_run.txt')) else []
    m["checks_run"] = {"how": "selftest/run-seed.sh: git -C /repo apply patch.diff; bin/check <id> quick; git -C /repo checkout -- .", "runs": runs}
    det = sorted({r.split('bin/check ')[1].split(' ')[0] for r in runs if 'VIOLATED' in r})
    m["detected_by"] = det
    json.dump(m, open(mp, 'w'), indent=1)
    print(sid, "detected by", det)
