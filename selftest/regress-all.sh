#!/bin/bash
# regress-all.sh : every stored seed against its own property's quick check, one after the other (never in parallel:
# every check builds from /repo's working tree).  Prints one line per seed; exit 1 if a seed is not reported.
cd /verif
bad=0
for d in seeded/*/; do
  id=$(basename "$d"); p=${id%-*}
  line=$(selftest/run-seed.sh "$id" "$p" 2>&1 | tail -1 | cut -c1-140)
  echo "$line"
  case "$line" in *VIOLATED*) ;; *) bad=$((bad+1));; esac
done
git -C /repo status --short | grep -v '^??' && { echo "/repo is not clean"; bad=$((bad+1)); }
echo "seeds not reported: $bad"
[ "$bad" = 0 ]
