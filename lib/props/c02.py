"""C02 -- features paint in file order; only covering features matter; operations compose (spec/Paint.tla)."""
from lib import build, tlc, replay, report, gen


def paint_run(c, tier):
    exe = build.build("rel", ("replay",))["replay"]
    quick = tier != "thorough"
    th = tlc.run("MC_Paint_theorems.tla", "Paint_theorems.cfg", workers=2, timeout=300)
    c.add_tlc(th, "oracle theorems (add/subtract cancel, replace forgets)")
    r = tlc.run("Paint.tla", "Paint_quick.cfg" if quick else "Paint_thorough.cfg", workers=12, timeout=2400, heap="12g")
    c.add_tlc(r, "feature stacks")
    beh = list(r.behaviours)
    if not quick:
        sim = tlc.run("Paint.tla", "Paint_sim.cfg", workers=8, timeout=1200, simulate=25, depth=5, seed=c.seed)
        c.add_tlc(sim, "feature stacks of 3 and 4 (simulation)")
        beh += sim.behaviours
    beh = list(dict.fromkeys(beh))
    if not any('"unlisted-labels"' in b[:300] for b in beh):
        raise tlc.SetupError("Paint.tla did not emit the unlisted-label behaviours")
    res = replay.replay(exe, beh, shards=16)
    return beh, res, quick


def subset_run(c, tier):
    """Documents of the world-file grammar: the world made of the features that contain a point answers like the full world."""
    exe = build.build("rel", ("replay",))["replay"]
    b = gen.behaviours(c, tier, "paint")
    return b, replay.replay(exe, b, shards=16, timeout_s=180)


def run(tier):
    c = report.Check("C02", "model_checking", tier)
    gb, gres = subset_run(c, tier)
    # rows that no feature contains are C03's (the background); here: the containing subset and the tag of the last containing feature
    gres.mismatches = [m for m in gres.mismatches if m.get("check") != "subset-background"]
    c.add_replay(gres, "world-file grammar: sub-document of the containing features = full document, bit for bit; tag of the last containing feature")
    c.coverage["grammar_documents"] = len(gb)
    c.coverage["subset_checks"] = {k: v for k, v in gres.stats.get("by_check", {}).items() if k.startswith("subset")}
    beh, res, quick = paint_run(c, tier)
    # C02 looks at the covered probe (step 1); the outside probe (step 2) belongs to C03
    res.mismatches = [m for m in res.mismatches if m.get("step") != 2]
    c.add_replay(res, "feature stacks at the covered probe")
    c.sample(beh[len(beh) // 3]); c.sample(beh[-1])
    c.coverage["exhaustive"] = True
    c.coverage["distinct_nontrivial"] = sum(1 for b in beh if '"last:none"' not in b)
    c.coverage["rule"] = ("every feature list TLC builds from the catalogue (6 feature types x {cover, miss horizontally, miss in depth} x "
                          "model assignments varying temperature / composition / grains operations one kind at a time, plus full and empty "
                          "assignments, lists of two models of a kind and tag strings); every kind of composition model a feature type offers (uniform, smooth, "
                          "tian water content, random) x 4 operations over a painted base: the labels it does not list are cleared by replace and kept "
                          "otherwise; non-trivial = at least one feature covers the probe; distinct = distinct TLC states; "
                          "plus documents of the world-file grammar Gen.tla with up to three features of any type, geometry, depth surfaces and models, each built "
                          "together with all its sub-documents: at every lattice point the features that contain it are those whose one-feature world reports a tag, "
                          "and the sub-document of exactly those features must answer bit for bit like the full document (deleting any set of non-containing "
                          "features changes nothing) with the tag string of the last of them")
    c.assumptions += ["feature stacks use uniform models (the operation algebra is what is checked); thermal expansion 0 so the background is exactly Tp",
                      "grains compared with 1e-12 absolute tolerance when a slab/fault covers the probe (they average orientations through quaternions), exactly otherwise",
                      "velocity asserted only when the last covering feature has a velocity model (the statement does not say velocity is left as it was)"]
    return c.finish()
