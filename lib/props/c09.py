"""C09 -- the 2D cross-section interface equals the 3D interface along the section (spec/CrossSection.tla)."""
import json
from lib import build, tlc, replay, report


def run(tier):
    c = report.Check("C09", "model_checking", tier)
    exe = build.build("rel", ("replay",))["replay"]
    r = tlc.run("CrossSection.tla", "CrossSection.cfg", workers=12, timeout=1200, heap="12g")
    c.add_tlc(r, "sections (origin x Pythagorean direction x coordinate system); exact mapping, probes off boundaries")
    # every harness process gets Cartesian and spherical sections, alternately starting with either kind
    # (state shared between worlds of different coordinate systems must not leak into the mapping)
    r.behaviours = list(dict.fromkeys(r.behaviours))
    if not any('"refusal"' in b[:200] for b in r.behaviours):
        raise tlc.SetupError("the refusal behaviours were not emitted")
    cart = [b for b in r.behaviours if '"spherical"' not in b[:400] and '"refusal"' not in b[:200]]
    sph = [b for b in r.behaviours if '"spherical"' in b[:400]]
    other = [b for b in r.behaviours if b not in cart and b not in sph]
    ncol = 6
    cols = [[] for _ in range(ncol)]
    for k in range(ncol):
        a, b = (cart[k::ncol], sph[k::ncol]) if k % 2 == 0 else (sph[k::ncol], cart[k::ncol])
        for i in range(max(len(a), len(b))):
            if i < len(a): cols[k].append(a[i])
            if i < len(b): cols[k].append(b[i])
    cols[0] += other
    depth = max(len(x) for x in cols)
    ordered = []
    filler = json.dumps({"id": "filler", "labels": ["filler"], "steps": []})
    for i in range(depth):
        for k in range(ncol):
            ordered.append(cols[k][i] if i < len(cols[k]) else filler)
    res = replay.replay(exe, ordered, shards=ncol, timeout_s=120)
    c.add_replay(res, "2D query vs 3D query at the specified mapped point")
    from lib import gen
    gb = gen.behaviours(c, tier, "section")          # documents of the world-file grammar with one of four cross sections
    gres = replay.replay(exe, gb, shards=16, timeout_s=300)
    gres.n = len(gb)
    c.add_replay(gres, "documents of the world-file grammar: 2D interface vs 3D interface at the mapped points along the document's cross section")
    c.coverage["grammar_documents"] = len(gb)
    c.sample(r.behaviours[0][:2500] + "...")
    c.coverage["exhaustive"] = True
    c.coverage["distinct_nontrivial"] = res.stats.get("queries", 0) // 2
    c.coverage["rule"] = ("sections: 3 (2) origins x 6 directions (axis-aligned, negative, 3-4-5, 5-12-13) in Cartesian (spherical) "
                          "renderings of the kitchen-sink world plus a half-space-cooling plate whose temperature varies continuously with "
                          "position; per section 6 (5) positions x 4 depths x 45 property lists (all singles and pairs of T, C0, C5, G0x2, Tag, V "
                          "and three longer ones); each 2D reply is compared block by block with the 3D reply at the mapped point TLC computes "
                          "exactly; velocity as the specified projection; the same pairs through 11 single-property entry points (World::temperature with and "
                          "without gravity argument, composition, grains; C API properties/temperature/composition; C++ wrapper), with and without forced "
                          "surface temperature, depth 0 included; refusal of all 17 2D entry points without a cross section at depths {0, 50 km}, forced "
                          "and unforced; plus simulated documents of the world-file grammar Gen.tla, each with one of four Pythagorean cross sections, compared "
                          "at 14 positions x 7 depths along the section. non-trivial = (2D,3D) query pairs")
    c.assumptions += ["blocks compared with rel/abs 1e-9 (the code's own mapping rounds differently from the exact rational one); probes >= 1 km from straight feature boundaries",
                      "spherical velocity projection not asserted (statement: Cartesian)"]
    return c.finish()
