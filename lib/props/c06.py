"""C06 -- slab and fault geometry equals the elementary construction for straight trenches (spec/Slab.tla)."""
from lib import build, tlc, replay, report


def run(tier):
    c = report.Check("C06", "model_checking", tier)
    exe = build.build("rel", ("replay",))["replay"]
    quick = tier != "thorough"
    r = tlc.run("Slab.tla", "Slab_quick.cfg" if quick else "Slab_thorough.cfg", workers=12, timeout=3000, heap="16g")
    c.add_tlc(r, "segment tables x thickness x truncation x min depth x trench direction x dip side; exact planar construction")
    beh = list(dict.fromkeys(r.behaviours))
    arcs = tlc.run("MC_Slab_arcs.tla", "Slab_arcs.cfg", workers=2, timeout=600)
    c.add_tlc(arcs, "arc segments by construct-then-query (symbolic terms)")
    beh += [b for b in arcs.behaviours if '"arc"' in b[:300]]
    res = replay.replay(exe, beh, shards=16, timeout_s=120)
    c.add_replay(res, "distance_to_plane and membership at 300 lattice points per world")
    c.sample(beh[len(beh) // 2][:2500] + "...")
    c.coverage["exhaustive"] = True
    c.coverage["distinct_nontrivial"] = len(beh)
    c.coverage["rule"] = ("straight trenches (3 directions incl. two oblique Pythagorean ones, either dip side) x segment tables of 1 (quick) / "
                          "1-2 (thorough) segments with lengths {50,100} km and dips {36.87, 53.13, 90, 126.87, 143.13} degrees x thickness x top "
                          "truncation x min depth {0, 100 km}, slabs and faults; 300 lattice points per world in three planes perpendicular to the "
                          "trench: distance from and along the surface (1e-6 relative + 1 m) and membership where no inequality is tight; points in the "
                          "wedge outside a convex kink or equidistant from two segments are not asserted. non-trivial: all worlds")
    c.assumptions += ["Cartesian; straight segments exactly, arcs by construct-then-query (6 arc cases, 24-28 constructed points each); spherical trenches are covered by C07 (differential), C08 (motions) and C13 only"]
    return c.finish()
