"""C14 -- concurrent queries are race-free; gwb-grid output does not depend on -j
(spec/Pool.tla, spec/PoolTrace.tla, spec/Concurrent.tla)."""
import glob, json, os, shutil, subprocess, tempfile
from lib import build, tlc, report, datfiles

VERIF = os.path.dirname(os.path.dirname(os.path.dirname(os.path.abspath(__file__))))
REPO = build.REPO


def validate_pool_trace(path, strict=False):
    """TLC accepts the recorded trace iff it is a behaviour of the spec (PoolTrace.tla; strict = also the transcribed mechanism)."""
    try:
        r = tlc.run("PoolTrace.tla", "PoolTrace_strict.cfg" if strict else "PoolTrace.cfg", workers=1, timeout=600, env={"TRACE": path}, quiet=True)
        return True, r
    except tlc.SetupError:
        return False, None


def run(tier):
    c = report.Check("C14", "model_checking", tier)
    quick = tier != "thorough"
    exes = build.build("rel", ("pooltrace", "threads", "gwb-grid"))
    tsan = build.build("tsan", ("threads",))
    tmp = tempfile.mkdtemp(prefix="c14_", dir=os.path.join(VERIF, ".cache"))
    try:
        # 1. the model: all interleavings of the pool, the partition arithmetic, concurrent readers
        r = tlc.run("Pool.tla", "Pool_quick.cfg" if quick else "Pool_thorough.cfg", workers=8, timeout=1500)
        c.add_tlc(r, "parallel_for: all interleavings, no slot written twice, termination under fairness")
        r = tlc.run("MC_Pool_partition.tla", "Pool_partition_quick.cfg" if quick else "Pool_partition_thorough.cfg", workers=4, timeout=1500)
        c.add_tlc(r, "slices partition [0,n) for all n, T in the bound (ASSUME)")
        r = tlc.run("Concurrent.tla", "Concurrent.cfg", workers=8, timeout=900)
        c.add_tlc(r, "concurrent readers: no shared write, single-thread answers under all interleavings")
        jobs = r.records.get("J", [])
        if not jobs: raise tlc.SetupError("Concurrent.tla emitted no job lists")
        # 2. trace validation of the real ThreadPool
        ns = list(range(0, 41)) + [63, 64, 65, 100, 127, 255, 256]
        ts = list(range(1, 13)) + [16, 31, 32, 40]
        if quick:
            ns = [n for n in ns if n <= 24 or n in (64, 65, 255)]
        pairs = [(n, t) for n in ns for t in ts]
        trace = os.path.join(tmp, "pool.ndjson")
        args = [str(x) for p in pairs for x in p]
        subprocess.run([exes["pooltrace"], trace] + args, check=True, timeout=900)
        ok, tr = validate_pool_trace(trace)
        nlines = sum(1 for _ in open(trace))
        c.coverage["traces_validated_against_impl"] += len(pairs)
        mech_ok, _ = validate_pool_trace(trace, strict=True)
        c.notes["pool_trace"] = {"executions": len(pairs), "events": nlines, "accepted": ok,
                                 "mechanism_conformance (information only)": mech_ok}
        if tr: c.add_tlc(tr, "PoolTrace: recorded executions of the real ThreadPool")
        if not ok:
            keep = os.path.join(VERIF, "evidence", "replays"); os.makedirs(keep, exist_ok=True)
            dst = os.path.join(keep, "C14_pooltrace.ndjson"); shutil.copy(trace, dst)
            # re-run once: report a rejection only if it repeats
            ok2, _ = validate_pool_trace(dst)
            if not ok2:
                c.mismatches.append({"id": "pool-trace", "labels": ["pool-trace"], "check": "trace-rejected", "op": "parallel_for",
                                     "msg": "the recorded slices of the real ThreadPool are not a behaviour of Pool.tla", "behaviour": open(dst).read().strip()})
        c.sample({"trace_head": [json.loads(l) for l in open(trace).read().splitlines()[:6]]})
        # 3. real threads against one world, bitwise vs single thread; the same under ThreadSanitizer
        env = dict(os.environ, TSAN_OPTIONS="exitcode=68 halt_on_error=1")
        # the repository's own worlds (every model type, variable depth surfaces, ...) with the points of their .dat files
        repo = datfiles.repo_worlds(max_points=24 if quick else 60)
        c.notes["repo_worlds"] = len(repo)
        from lib import gen
        gj = gen.jobs(c, tier, 8 if quick else 60)          # documents of the world-file grammar (treated like the repository's worlds)
        c.notes["grammar_worlds"] = len(gj)
        jobs = list(jobs) + [json.dumps(w) for w in repo] + [j.replace('{"wb"', '{"gen":1,"wb"', 1) if j.startswith('{"wb"') else j for j in gj]
        for ji, job in enumerate(jobs):
            jp = os.path.join(tmp, "job%d.json" % ji)
            open(jp, "w").write(job)
            spec_job = '"wb"' in job[:20]
            plan = ((("rel", exes["threads"], (2, 7, 32), 20 if quick else 200), ("tsan", tsan["threads"], (4, 16) if quick else (2, 4, 16, 32), 2 if quick else 6))
                    if spec_job else
                    (("rel", exes["threads"], (8,) if quick else (3, 8, 32), 30 if quick else 200), ("tsan", tsan["threads"], (4,) if quick else (4, 16), 1 if quick else 3)))
            for flavour, exe, tcounts, rounds in plan:
                for t in tcounts:
                    p = subprocess.run([exe, jp, str(t), str(rounds), tmp], stdout=subprocess.PIPE, stderr=subprocess.PIPE, text=True, env=env, timeout=1500)
                    st = {}
                    try: st = json.loads(p.stdout.strip().splitlines()[-1])
                    except Exception: pass
                    c.coverage["evaluations"] += st.get("queries", 0)
                    c.notes.setdefault("threads_runs", []).append({"job": ji, "flavour": flavour, "threads": t, "rc": p.returncode, **st})
                    if p.returncode == 77: break          # a repository file that is meant not to build
                    if p.returncode != 0:
                        kind = "data-race" if p.returncode == 68 or "ThreadSanitizer" in p.stderr else "thread-answer-differs"
                        c.mismatches.append({"id": "threads-%s-%d-%d" % (flavour, ji, t), "labels": ["threads", flavour], "check": kind, "op": "properties",
                                             "msg": (p.stderr or p.stdout)[-1200:], "behaviour": json.dumps({"cmd": [exe, jp, str(t), str(rounds), "/tmp"], "job": json.loads(job)})})
        # 4. gwb-grid: byte-identical VTU files for every thread count
        gridjobs = []
        for g in sorted(glob.glob(os.path.join(REPO, "tests/gwb-grid/*.grid"))):
            wb = g[:-5] + ".wb"
            if os.path.exists(wb) and "random" not in g: gridjobs.append((wb, g))
        small = os.path.join(tmp, "small.grid")
        open(small, "w").write("grid_type = cartesian\ndim = 3\ncompositions = 2\nx_min = 0\nx_max = 100e3\ny_min = 0\ny_max = 100e3\nz_min = 0\nz_max = 100e3\nn_cell_x = 1\nn_cell_y = 2\nn_cell_z = 1\n")
        gridjobs.append((os.path.join(REPO, "tests/gwb-grid/3d_plume.wb"), small))      # 12 nodes: fewer nodes than threads
        if quick: gridjobs = gridjobs[:3] + gridjobs[-1:]
        js = (1, 2, 3, 5, 8, 16, 40)
        ngrid = 0
        for wb, g in gridjobs:
            outs = {}
            for j in js:
                d = os.path.join(tmp, "grid_j%d" % j); os.makedirs(d, exist_ok=True)
                p = subprocess.run([exes["gwb-grid"], "-j", str(j), "--filtered", "--by-tag", wb, g], cwd=d, stdout=subprocess.PIPE, stderr=subprocess.STDOUT, text=True, timeout=900)
                files = {}
                for f in sorted(glob.glob(os.path.join(d, "*.vtu"))):
                    files[os.path.basename(f)] = open(f, "rb").read(); os.remove(f)
                outs[j] = (p.returncode, files)
                ngrid += 1
            ref = outs[1]
            for j in js[1:]:
                if outs[j] != ref:
                    c.mismatches.append({"id": "grid-j", "labels": ["gwb-grid-j"], "check": "vtu-differs", "op": "gwb-grid",
                                         "msg": "output of -j %d differs from -j 1 for %s %s" % (j, wb, g),
                                         "behaviour": json.dumps({"cmd": [exes["gwb-grid"], "-j", str(j), "--filtered", "--by-tag", wb, g]})})
            if not ref[1] or ref[0] != 0:
                c.setup_errors.append("gwb-grid produced no output for %s (rc %s)" % (g, ref[0]))
        c.coverage["evaluations"] += ngrid
        c.notes["gwb_grid_runs"] = ngrid
        c.coverage["distinct_nontrivial"] = len(pairs) + ngrid + len(c.notes.get("threads_runs", []))
        c.coverage["rule"] = ("model: every interleaving of parallel_for for n <= 6/7 items and T <= 3/4 threads (safety and termination), the "
                              "partition theorem for all n <= 130/256 and T <= 40; implementation: recorded executions of the real ThreadPool for "
                              "the listed (n, T) pairs validated as behaviours of the spec by TLC; 2..32 real threads replaying all queries in "
                              "thread-specific orders against one world, bitwise vs single thread, and under ThreadSanitizer; real gwb-grid with "
                              "-j in {1,2,3,5,8,16,40}, byte comparison of all VTU outputs. non-trivial = executions with more than one worker or thread")
        c.assumptions += ["real schedules are sampled (the OS scheduler), exhaustive interleavings only in the model",
                          "worlds without random models (statement)"]
    finally:
        shutil.rmtree(tmp, ignore_errors=True)
    return c.finish()
