"""C18 -- gwb-grid writes the requested mesh and the library's values at its nodes
(spec/Grid.tla, spec/GridTrace.tla)."""
import glob, json, math, os, shutil, subprocess, tempfile
from lib import build, tlc, replay, report, terms, vtu

VERIF = os.path.dirname(os.path.dirname(os.path.dirname(os.path.abspath(__file__))))


def near_int(x, tol=1e-6):
    if not math.isfinite(x): return None
    r = round(x)
    return r if abs(x - r) <= tol else None


def lattice(cfg, b, m):
    """lattice indices, depth index and numeric depth errors for every node of mesh m; also nt for the annulus"""
    n = m["npoints"]; P = m["points"]; D = m["point_data"]["Depth"]
    t, dim, nx, ny, nz = cfg["type"], cfg["dim"], cfg["nx"], cfg["ny"], cfg["nz"]
    out = []; nt = 0; bad_depth = 0
    top = b[5]
    dstep = (b[5] - b[4]) / nz
    if t == "annulus":
        nt = n // (nz + 1)
    for i in range(n):
        x, y, z = P[3 * i], P[3 * i + 1], P[3 * i + 2]
        ijk = [-1, -1, -1]
        if t == "cartesian":
            if dim == 3:
                v = [near_int((x - b[0]) / ((b[1] - b[0]) / nx)), near_int((y - b[2]) / ((b[3] - b[2]) / ny)), near_int((z - b[4]) / dstep)]
                height = z
            else:
                v = [near_int((x - b[0]) / ((b[1] - b[0]) / nx)), 0, near_int((y - b[4]) / dstep)]
                height = y
            ijk = [-1 if q is None else q for q in v]
        elif t == "chunk":
            if dim == 3:
                r = math.sqrt(x * x + y * y + z * z); lon = math.degrees(math.atan2(y, x)); lat = math.degrees(math.asin(z / r))
                v = [near_int((lon - b[0]) / ((b[1] - b[0]) / nx), 1e-5), near_int((lat - b[2]) / ((b[3] - b[2]) / ny), 1e-5), near_int((r - b[4]) / dstep, 1e-5)]
            else:
                r = math.hypot(x, y); lon = math.degrees(math.atan2(y, x))
                v = [near_int((lon - b[0]) / ((b[1] - b[0]) / nx), 1e-5), 0, near_int((r - b[4]) / dstep, 1e-5)]
            height = r
            ijk = [-1 if q is None else q for q in v]
        elif t == "annulus":
            r = math.hypot(x, y); th = math.atan2(y, x) % (2 * math.pi)
            a = near_int(th / (2 * math.pi / nt), 1e-5) if nt else None
            if a is not None: a %= nt
            v = [a, 0, near_int((r - b[4]) / dstep, 1e-5)]
            height = r
            ijk = [-1 if q is None else q for q in v]
        else:   # sphere: no lattice; only the invariants
            r = math.sqrt(x * x + y * y + z * z); height = r
            ijk = [0, 0, 0]
            if not (b[4] - 1e-6 * b[5] <= r <= b[5] * (1 + 1e-9)): bad_depth += 1
        dk = near_int(D[i] / dstep, 1e-6)
        if abs(D[i] - (top - height)) > 1e-6 * top: bad_depth += 1
        out.append((ijk, -99 if dk is None else dk))
    return out, nt, bad_depth


def run(tier):
    c = report.Check("C18", "model_checking", tier)
    quick = tier != "thorough"
    exes = build.build("rel", ("replay", "gwb-grid"))
    r = tlc.run("Grid.tla", "Grid_quick.cfg" if quick else "Grid_thorough.cfg", workers=4, timeout=600)
    c.add_tlc(r, "grid configurations (type x dim x cell counts)")
    jobs = [json.loads(j) for j in r.records.get("J", [])]
    tmp = tempfile.mkdtemp(prefix="c18_", dir=os.path.join(VERIF, ".cache"))
    try:
        trace = []; behaviours = []; nfiles = 0
        for k, j in enumerate(jobs):
            asked = j["config"]; cfg = j["effective"]; b = j["bounds"]      # cfg: the cell counts the mesh must have (capped by --resolution-limit)
            ascii_ = bool(asked.get("ascii"))
            limit = ["--resolution-limit", str(asked["limit"])] if asked.get("limit") else []
            d = os.path.join(tmp, "run%d" % k); os.makedirs(d)
            wbp = os.path.join(d, "w.wb"); gp = os.path.join(d, "g.grid")
            json.dump(terms.normalise(j["wb"]), open(wbp, "w"))
            open(gp, "w").write("\n".join(j["grid"]) + "\n")
            p = subprocess.run([exes["gwb-grid"], "-j", "3", "--filtered", "--by-tag"] + limit + [wbp, gp], cwd=d, stdout=subprocess.PIPE, stderr=subprocess.PIPE, text=True, timeout=600)
            desc = json.dumps({"cmd": [exes["gwb-grid"], "-j", "3", "--filtered", "--by-tag"] + limit + ["<wb>", "<grid>"], "config": asked, "grid": j["grid"], "wb": j["wb"]})
            main = os.path.join(d, "w.vtu")
            if p.returncode != 0 or not os.path.exists(main):
                c.mismatches.append({"id": "grid-%d" % k, "labels": ["grid-run", cfg["type"]], "check": "run", "op": "gwb-grid", "got": "rc=%d" % p.returncode,
                                     "msg": "gwb-grid failed for %s: %s" % (json.dumps(cfg), (p.stderr or p.stdout)[-300:]), "behaviour": desc})
                continue
            m = vtu.read(main); nfiles += 1
            idx, nt, bad_depth = lattice(cfg, b, m)
            if bad_depth:
                c.mismatches.append({"id": "grid-%d" % k, "labels": ["grid-depth", cfg["type"]], "check": "depth", "op": "gwb-grid", "got": str(bad_depth),
                                     "msg": "%d nodes whose Depth is not the distance below the top of the grid (or radius outside the shell) for %s" % (bad_depth, json.dumps(cfg)), "behaviour": desc})
            nonfinite = sum(1 for v in m["points"] + m["point_data"]["Depth"] + m["point_data"]["Temperature"] + m["point_data"]["Tag"] if not math.isfinite(v))
            if nonfinite:
                c.mismatches.append({"id": "grid-%d" % k, "labels": ["grid-nonfinite", cfg["type"]], "check": "finite", "op": "gwb-grid", "got": str(nonfinite),
                                     "msg": "%d non-finite node coordinates / depths / values in the mesh written for %s" % (nonfinite, json.dumps(cfg)), "behaviour": desc})
            tags = [int(v) if math.isfinite(v) else -99 for v in m["point_data"]["Tag"]]
            trace.append({"e": "Grid", **cfg, "nt": nt})
            for i in range(m["npoints"]):
                trace.append({"e": "Node", "id": i, "ijk": idx[i][0], "dk": idx[i][1], "tag": tags[i]})
            npc = 4 if cfg["dim"] == 2 else 8
            conn = m["connectivity"]
            srccells = {}
            pts = [tuple(m["points"][3 * i:3 * i + 3]) for i in range(m["npoints"])]
            for ci in range(m["ncells"]):
                nodes = conn[ci * npc:(ci + 1) * npc]
                trace.append({"e": "Cell", "nodes": nodes, "type": m["types"][ci], "offset": m["offsets"][ci]})
                if all(0 <= q < len(pts) for q in nodes):
                    srccells[tuple(pts[q] for q in nodes)] = ci + 1
            # values at the nodes: the library, in-process, at the stored position and depth, must return the stored values bit for bit
            nc = 3
            cols = ["Temperature", "velocity", "Tag"] + ["Composition %d" % q for q in range(nc)]
            rows = []
            for i in range(m["npoints"]):
                x, y, z = pts[i]
                pos = [x, y, m["point_data"]["Depth"][i]] if cfg["dim"] == 2 else [x, y, z, m["point_data"]["Depth"][i]]
                vals = [m["point_data"]["Temperature"][i]] + m["point_data"]["velocity"][3 * i:3 * i + 3] + [m["point_data"]["Tag"][i]] + \
                       [m["point_data"]["Composition %d" % q][i] for q in range(nc)]
                if all(math.isfinite(v) for v in pos + vals): rows.append(pos + vals)      # non-finite nodes are reported above
            off = 3 if cfg["dim"] == 2 else 4
            behaviours.append(json.dumps({"id": ["grid-values", cfg], "labels": ["grid-values", cfg["type"], "dim%d" % cfg["dim"]],
                "steps": [{"op": "create", "h": 1, "wb": j["wb"], "default_seed": True},
                          {"op": "qtable", "h": 1, "dim": cfg["dim"], "props": [[1, 0, 0], [5, 0, 0], [4, 0, 0]] + [[2, q, 0] for q in range(nc)],
                           # ASCII files hold six significant digits (the positions of these Cartesian grids are exact in six digits)
                           "checks": [({"k": "tol", "at": q, "col": off + q, "rel": 1e-5, "abs": 1e-9} if ascii_ else {"k": "eq", "at": q, "col": off + q}) for q in range(5 + nc)], "rows": rows}]}))
            # filtered outputs: which source cells were kept, node values unchanged
            wbdoc = terms.normalise(j["wb"])
            for f in sorted(glob.glob(os.path.join(d, "w.*.vtu"))):
                fm = vtu.read(f); nfiles += 1
                name = os.path.basename(f)[2:-4]
                fpts = [tuple(fm["points"][3 * i:3 * i + 3]) for i in range(fm["npoints"])]
                kept = []; unmapped = 0
                for ci in range(fm["ncells"]):
                    nodes = fm["connectivity"][ci * npc:(ci + 1) * npc]
                    key = tuple(fpts[q] for q in nodes) if all(0 <= q < len(fpts) for q in nodes) else None
                    if key in srccells: kept.append(srccells[key])
                    else: unmapped += 1
                # tag indices: first-occurrence order of the tags in the file = World::feature_tags
                feats = wbdoc["features"]; tagnames = []
                for ft in feats:
                    tg = ft.get("tag") or ft["model"]
                    if tg not in tagnames: tagnames.append(tg)
                if name == "filtered": include = [q for q, tg in enumerate(tagnames) if tg != "mantle layer"]
                else: include = [int(name)]
                trace.append({"e": "Filter", "include": include, "kept": kept, "unmapped": unmapped})
                # node values unchanged
                srcnode = {pt: i for i, pt in enumerate(pts)}
                changed = 0
                for i, pt in enumerate(fpts):
                    s = srcnode.get(pt)
                    if s is None: changed += 1; continue
                    for nm in m["point_data"]:
                        w = m["ncomp"][nm]
                        if fm["point_data"][nm][w * i:w * i + w] != m["point_data"][nm][w * s:w * s + w]: changed += 1
                if changed:
                    c.mismatches.append({"id": "grid-%d-%s" % (k, name), "labels": ["grid-filter-values", cfg["type"]], "check": "filter-values", "op": "gwb-grid", "got": str(changed),
                                         "msg": "%s output: %d node values differ from the main file for %s" % (name, changed, json.dumps(cfg)), "behaviour": desc})
            trace.append({"e": "End"})
        tpath = os.path.join(tmp, "grid_trace.ndjson")
        with open(tpath, "w") as f:
            for ev in trace: f.write(json.dumps(ev) + "\n")
        tr = tlc.run("GridTrace.tla", "GridTrace.cfg", workers=1, timeout=2400, env={"TRACE": tpath}, heap="12g")
        c.add_tlc(tr, "GridTrace: every mesh the real tool wrote, judged by Grid.tla's predicates")
        for dv in json.loads(tr.records.get("D", ["[]"])[-1]):
            cfg = dv["config"]
            c.mismatches.append({"id": "grid-trace-%d" % dv["line"], "labels": ["grid-trace", cfg["type"], dv["kind"]], "check": dv["kind"], "op": "gwb-grid",
                                 "got": json.dumps(dv["detail"])[:300], "msg": "mesh of %s: %s deviates from the specification" % (json.dumps(cfg), dv["kind"]),
                                 "behaviour": json.dumps({"config": cfg, "trace_line": dv["line"], "detail": dv["detail"]})})
        c.coverage["traces_validated_against_impl"] += nfiles
        c.notes["trace_events"] = len(trace)
        res = replay.replay(exes["replay"], behaviours, shards=16, timeout_s=300)
        c.add_replay(res, "stored node values vs World::properties at the stored position and depth, bitwise")
        c.sample({"config": jobs[0]["config"], "grid": jobs[0]["grid"], "trace_head": trace[:4]})
        c.coverage["exhaustive"] = True
        c.coverage["distinct_nontrivial"] = len(jobs)
        c.coverage["rule"] = ("every grid configuration type {cartesian, chunk, annulus, sphere} x dim x cell counts 1..MaxN per direction "
                              "(quick MaxN = 2, thorough 3), run through the real gwb-grid with --filtered --by-tag and RawBinary output (full "
                              "precision); also with --resolution-limit 1 (the mesh must have min(requested, limit) cells) and, for Cartesian grids, the ASCII "
                              "format (values to six digits); every mesh (main, filtered, one per tag) is replayed to TLC as a trace: node lattice indices form the "
                              "full index box, cells are exactly the unit cells in VTK order, Depth index, filter rule; every stored node value is "
                              "compared bitwise with the library's in-process reply at the stored position. non-trivial: all configurations")
        c.assumptions += ["sphere grids are judged by invariants only (cells reference existing nodes, radii in the shell, Depth = outer radius - r, values at nodes)",
                          "thread count 3 here; independence of -j is C14's"]
    finally:
        shutil.rmtree(tmp, ignore_errors=True)
    return c.finish()
