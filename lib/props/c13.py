"""C13 -- queries on a built world are total and return finite numbers (spec/Degenerate.tla)."""
import json
from lib import build, tlc, replay, report


def run(tier):
    c = report.Check("C13", "exploration", tier)
    exe = build.build("san", ("replay",))["replay"]
    r = tlc.run("Degenerate.tla", "Degenerate.cfg", workers=8, timeout=900)
    c.add_tlc(r, "world kind x degenerate location")
    beh = list(dict.fromkeys(r.behaviours))
    res = replay.replay(exe, beh, shards=16, timeout_s=30)
    c.add_replay(res, "every location x 16 depths x 2 property lists (3D, and 2D on the section) under ASan + UBSan")
    # the worlds and query points of the other specifications, judged here only for totality, finiteness and sanitizer reports
    borrowed = []
    step = 12 if tier != "thorough" else 2
    q = tier != "thorough"
    specs = (("Models.tla", "Models.cfg", 3 if q else 1), ("Envelope.tla", "Envelope.cfg", 6 if q else 2), ("Surface.tla", "Surface.cfg", 20 * step),
             ("Sections.tla", "Sections.cfg", 20 * step), ("Slab.tla", "Slab_quick.cfg", 10 * step), ("Culling.tla", "Culling.cfg", step),
             ("Motion.tla", "Motion.cfg", 10 * step), ("CrossSection.tla", "CrossSection.cfg", 12 if q else 3), ("Plume.tla", "Plume_cart_quick.cfg", 20 * step),
             ("Paint.tla", "Paint_quick.cfg", 20 * step), ("Rng.tla", "Rng_quick.cfg", 10 * step))
    from concurrent.futures import ThreadPoolExecutor
    with ThreadPoolExecutor(4) as ex:
        runs = list(ex.map(lambda t: tlc.run(t[0], t[1], workers=4, timeout=1800, heap="8g"), specs))
    for (mod, cfg, pick), rr in zip(specs, runs):
        c.add_tlc(rr, "borrowed worlds of " + mod)
        borrowed += [b for b in dict.fromkeys(rr.behaviours) if replay.pick(b, pick, c.seed)]
    from lib import gen
    gb = gen.behaviours(c, tier, "finite")
    borrowed += gb
    c.coverage["grammar_documents"] = len(gb)
    bres = replay.replay(exe, borrowed, shards=16, timeout_s=300, extra=("--only-finite", "1"))
    bres.n = len(borrowed)
    c.add_replay(bres, "worlds and points of the other specifications under ASan + UBSan: only totality and finiteness are judged")
    c.coverage["borrowed_behaviours"] = len(borrowed)
    c.sample(beh[0][:1500] + "...")
    c.coverage["evaluations"] = res.stats.get("queries", 0) + bres.stats.get("queries", 0)
    c.coverage["distinct_nontrivial"] = len(beh)
    c.coverage["exceptions_thrown_by_queries"] = res.stats.get("threw_query", 0)
    c.coverage["rule"] = ("3 world kinds (Cartesian with the surface at z = H, Cartesian with the surface at z = 0, spherical) of the kitchen-sink "
                          "configuration extended by two ridge plates, a plate with depth surfaces given at points and a kinked slab with a "
                          "mass-conserving temperature; 36 degenerate surface positions (polygon vertices/edges, trench line/ends, slab tip, fault line, "
                          "plume axis/rim, ridge points, surface nodes, kink) x 16 depths (feature bounds, 0, negative, 1e7) x 2 property lists, plus 9 "
                          "sphere-only locations (poles, +-180 meridian, centre). Every returned value must be finite unless a std::exception is "
                          "thrown; any sanitizer report, signal or time-out is a violation. In addition a sample of the worlds and query points of eleven other "
                          "specifications (closed-form models, envelopes, depth surfaces, sections, slab geometry, culling grids, motions, cross sections, "
                          "plumes, feature stacks, random models) and simulated documents of the world-file grammar Gen.tla are replayed under the sanitizers and judged only for finiteness. non-trivial = distinct "
                          "(world kind, location) pairs plus borrowed behaviours")
    c.assumptions += ["undefined behaviour is what ASan and UBSan report; the model only directs where to look",
                      "distance_to_plane is not included: it reports infinity by design away from a slab"]
    return c.finish()
