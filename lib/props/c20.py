"""C20 -- cooling models stay inside their physical envelope (spec/Envelope.tla)."""
from lib import build, tlc, replay, report


def run(tier):
    c = report.Check("C20", "exploration", tier)
    exe = build.build("rel", ("replay",))["replay"]
    r = tlc.run("Envelope.tla", "Envelope.cfg", workers=12, timeout=1800, heap="12g")
    c.add_tlc(r, "oceanic plate cases (model x ridge geometry x velocity/age x constant/varying thickness) and slab cases; probe lines")
    beh = list(dict.fromkeys(r.behaviours))
    res = replay.replay(exe, beh, shards=16, timeout_s=120)
    c.add_replay(res, "envelope, monotonicity along probe lines, boundary values")
    c.sample(beh[0][:2000] + "...")
    c.coverage["evaluations"] = res.stats.get("queries", 0)
    c.coverage["distinct_nontrivial"] = len(beh)
    c.coverage["checks_by_kind"] = res.stats.get("by_check", {})
    c.coverage["rule"] = ("oceanic plates: 3 models x 3 ridge geometries (straight, two segments with a transform offset, oblique) x 3 spreading "
                          "velocities (ages for the constant-age model) x {constant 120 km, laterally varying 70-130 km} plate thickness; 14 vertical "
                          "probes of 13 depths, 6 horizontal probes of 7 points away from the ridge, boundary values at 3 positions; on the sphere: half space "
                          "and plate model x oblique ridge east / west of the +-180 meridian x plate on the same side / across the meridian x spreading "
                          "velocity per ridge point {increasing, decreasing, equal}, 5 vertical probes of 13 depths and the top value. Slabs: mass "
                          "conserving (both reference models) and plate model, dips 30/60 (second segment curving), 3 velocities, 2 plate ages; a 21 x 61 "
                          "lattice of points in the plane across the slab. non-trivial: all cases")
    c.assumptions += ["TLC enumerates the cases and lays out the probe lines; the inequalities are checked numerically (slack 1e-9 relative)",
                      "slab envelope: ambient = background adiabat (no overriding plate in these worlds)"]
    return c.finish()
