"""C03 -- background outside every feature; forced surface temperature (spec/Background.tla, spec/Paint.tla)."""
from lib import build, tlc, replay, report
from lib.props import c02


def run(tier):
    c = report.Check("C03", "model_checking", tier)
    exe = build.build("rel", ("replay",))["replay"]
    r = tlc.run("MC_Background.tla", "Background.cfg", workers=8, timeout=900)
    c.add_tlc(r, "global constants x feature sets; Mech refines Prop (ASSUME)")
    res = replay.replay(exe, r.behaviours, shards=16)
    c.add_replay(res, "background / forced surface temperature")
    c.sample(r.behaviours[len(r.behaviours) // 2])
    n = len(set(r.behaviours))
    ri = tlc.run("Background.tla", "Background_inter_%s.cfg" % ("thorough" if tier == "thorough" else "quick"), workers=8, timeout=1800)
    c.add_tlc(ri, "every history of queries against three live worlds with different constants")
    resi = replay.replay(exe, ri.behaviours, shards=16)
    c.add_replay(resi, "interleaved worlds: each answer is the queried world's own adiabat")
    n += len(set(ri.behaviours))
    # the outside probe of every Paint world (tier-dependent catalogue)
    beh, pres, quick = c02.paint_run(c, tier)
    pres.mismatches = [m for m in pres.mismatches if m.get("step") == 2]
    c.add_replay(pres, "outside probe of every feature stack of Paint.tla")
    gb, gres = c02.subset_run(c, tier)
    gres.mismatches = [m for m in gres.mismatches if m.get("check") == "subset-background"]
    c.add_replay(gres, "world-file grammar: where no feature of the document contains the point the answer is that of the document without features")
    c.coverage["grammar_documents"] = len(gb)
    c.coverage["background_rows"] = gres.stats.get("by_check", {}).get("subset-background", 0)
    c.coverage["exhaustive"] = True
    c.coverage["distinct_nontrivial"] = n + len(beh)
    c.coverage["rule"] = ("all combinations of potential temperature {1600,1000,273} x expansivity {3.5e-5,0,1e-4} x specific heat x gravity "
                          "magnitude x coordinate system x forced/unforced x surface temperature x {no features, features that miss the probe, a "
                          "covering feature}, each queried at depths {-10 km, 0, 1 m, 100 km, 2890 km} with 5 property lists; every history of 4 (quick) / 6 "
                          "(thorough) queries at {100, 2890} km against three simultaneously live worlds with different constants; plus the outside "
                          "probe of every feature stack of Paint.tla; plus documents of the world-file grammar Gen.tla (up to three features of any type, "
                          "depth surfaces, every deterministic model, three sets of global constants, both coordinate systems): at every lattice point that none of the one-feature "
                          "worlds claims, the full document answers bit for bit like the same document without features and reports tag -1. non-trivial: all (each has a distinct constant set or feature stack)")
    c.assumptions += ["temperature compared with relative tolerance 1e-13 against the term Tp*exp(((alpha*g)/cp)*depth) evaluated in the same operation order",
                      "other blocks compared exactly"]
    return c.finish()
