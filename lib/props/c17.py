"""C17 -- gwb-dat prints exactly the library's values under its column headers (spec/Dat.tla, spec/DatTrace.tla)."""
import json, os, shutil, subprocess, tempfile
from lib import build, tlc, replay, report, terms

VERIF = os.path.dirname(os.path.dirname(os.path.dirname(os.path.abspath(__file__))))


def run(tier):
    c = report.Check("C17", "model_checking", tier)
    exes = build.build("rel", ("replay", "gwb-dat"))
    r = tlc.run("Dat.tla", "Dat.cfg", workers=8, timeout=900)
    c.add_tlc(r, "every .dat configuration: header names, slots of the library reply (Prop) and the printer's arithmetic (Mech)")
    p = tlc.run("MC_Dat_refines.tla", "Dat_refines_prop.cfg", workers=2, timeout=300)
    c.add_tlc(p, "Mech refines Prop with the deviations of the code switched off (ASSUME)")
    jobs = [json.loads(j) for j in r.records.get("J", [])]
    tmp = tempfile.mkdtemp(prefix="c17_", dir=os.path.join(VERIF, ".cache"))
    try:
        # library values through the harness, one behaviour per configuration
        for j in jobs:      # a row's depth written as a decimal string is the depth of its query
            for st in j["behaviour"]["steps"]:
                if "depthstr" in st: st["depth"] = float(st.pop("depthstr"))
        res = replay.replay(exes["replay"], [json.dumps(j["behaviour"]) for j in jobs], shards=16, dump=True)
        c.add_replay(res, "library replies for every row (World::properties in-process)")
        trace = []
        cells = 0
        for k, j in enumerate(jobs):
            cfg = j["config"]
            wb = os.path.join(tmp, "w%d.wb" % k); dat = os.path.join(tmp, "d%d.dat" % k)
            json.dump(terms.normalise(j["wb"]), open(wb, "w"))
            sep = ", " if cfg["comma"] else ("\t  " if cfg.get("sci") else " ")        # sci rows are separated by a tab and spaces
            with open(dat, "w") as f:
                for ln in j["file"]:          # the file exactly as the specification lays it out
                    f.write((ln["opt"] if "opt" in ln else sep.join(ln["row"])) + "\n")
            pr = subprocess.run([exes["gwb-dat"], wb, dat], stdout=subprocess.PIPE, stderr=subprocess.PIPE, text=True, timeout=120)
            lines = [ln for ln in pr.stdout.splitlines() if ln.strip()]
            trace.append({"e": "Run", **cfg})
            saves = res.saves.get(json.dumps(j["behaviour"]), {})
            nrow = 0
            for ln in lines:
                tok = ln.split()
                if tok and tok[0] == "#":
                    trace.append({"e": "Header", "tokens": tok[1:]})
                    continue
                nrow += 1
                trace.append({"e": "Row", "i": nrow, "tokens": tok})
                # cell values: the token under value name k must be what `cout << double` prints for the library's slot
                lib = saves.get("row%d" % nrow)
                if lib is None:
                    c.setup_errors.append("no library reply recorded for config %s row %d" % (cfg, nrow)); continue
                ni = j["ninputs"]
                if len(tok) != len(j["header"]): continue          # shape deviations are judged by the trace spec
                for vi, slot in enumerate(j["slots"]):
                    cells += 1
                    want = terms.fmt_g(lib[slot])
                    got = tok[ni + vi]
                    if got != want and float(got) != float(want):
                        name = j["header"][ni + vi]
                        kind = "c" if name.startswith("c") else ("g" if name.startswith("g") else name)
                        # is the wrong cell exactly what the transcribed printer arithmetic (Dat.tla MechSlots, AsCode) shows?
                        ms = j["mechslots"][vi]
                        asmech = ms < len(lib) and (got == terms.fmt_g(lib[ms]) or float(got) == float(terms.fmt_g(lib[ms])))
                        c.mismatches.append({"id": "dat-%d" % k, "labels": ["dat-cell", "dim%d" % cfg["dim"], "col:" + kind,
                                                                       "as-transcribed-printer" if asmech else "unexplained"], "check": "cell", "op": "gwb-dat",
                                             "at": vi, "got": got, "want": want,
                                             "msg": "config %s row %d: column %s shows %s, the library returns %s" % (json.dumps(cfg), nrow, name, got, want),
                                             "behaviour": json.dumps({"cmd": [exes["gwb-dat"], "<wb>", "<dat>"], "config": cfg, "options": j["options"], "rows": j["rows"], "wb": j["wb"]})})
            trace.append({"e": "End", "rc": pr.returncode, "rows": nrow})
        tpath = os.path.join(tmp, "dat_trace.ndjson")
        with open(tpath, "w") as f:
            for ev in trace: f.write(json.dumps(ev) + "\n")
        tr = tlc.run("DatTrace.tla", "DatTrace.cfg", workers=1, timeout=900, env={"TRACE": tpath})
        c.add_tlc(tr, "DatTrace: the real tool's tables validated against Dat.tla")
        devs = json.loads(tr.records.get("D", ["[]"])[-1])
        for d in devs:
            cfg = d["config"]
            extra = []
            if d["kind"] == "header" and isinstance(d["got"], list) and len(d["got"]) == len(d["want"]) + 1 and d["got"][:4] + d["got"][5:] == d["want"] and d["got"][4] == "g":
                extra = ["extra-g-after-d"]
            c.mismatches.append({"id": "dat-trace-%d" % d["line"], "labels": ["dat-trace", "dim%d" % cfg["dim"], d["kind"]] + extra, "check": d["kind"], "op": "gwb-dat",
                                 "got": json.dumps(d["got"]), "want": json.dumps(d["want"]),
                                 "msg": "config %s: %s deviates from the specification" % (json.dumps(cfg), d["kind"]),
                                 "behaviour": json.dumps({"trace_line": d["line"], "config": cfg})})
        c.coverage["traces_validated_against_impl"] += len(jobs)
        # malformed rows are reported, not silently misread (the catalogue is Dat.tla's Malformed)
        bad = 0
        mal = json.loads(r.records.get("X", ["[]"])[-1])
        if len(mal) < 8: raise tlc.SetupError("Dat.tla did not emit its malformed-row catalogue")
        wb2 = next(os.path.join(tmp, "w%d.wb" % k) for k, j in enumerate(jobs) if j["config"]["dim"] == 2 and not j["config"]["wsph"])
        wb3 = next(os.path.join(tmp, "w%d.wb" % k) for k, j in enumerate(jobs) if j["config"]["dim"] == 3 and not j["config"]["wsph"] and not j["config"]["conv"])
        for mr in mal:
            dim, fields = mr["dim"], mr["fields"]
            dat = os.path.join(tmp, "bad.dat")
            good = " ".join(["100e3", "400e3", "950e3", "50e3"][:dim] + ["50e3"]) if dim == 3 else "100e3 950e3 50e3"
            open(dat, "w").write("# dim = %d\n# compositions = 0\n%s\n" % (dim, good) + " ".join(fields) + "\n")
            pr = subprocess.run([exes["gwb-dat"], wb2 if dim == 2 else wb3, dat], stdout=subprocess.PIPE, stderr=subprocess.PIPE, text=True, timeout=120)
            bad += 1
            out = pr.stderr + pr.stdout
            named = ("line 4" in out) if mr["bad"] == "" else (mr["bad"] in pr.stderr or ("line 4" in out))
            if pr.returncode == 0 or not named:
                c.mismatches.append({"id": "dat-malformed", "labels": ["dat-malformed", "bad-field" if mr["bad"] else "field-count"], "check": "malformed-row", "op": "gwb-dat", "got": "rc=%d" % pr.returncode,
                                     "msg": "the row %s in a dim=%d file is not reported (exit %d): %s" % (json.dumps(fields), dim, pr.returncode, out[-300:]),
                                     "behaviour": json.dumps({"dat": open(dat).read()})})
        c.coverage["evaluations"] += len(jobs) + bad + cells
        c.coverage["distinct_nontrivial"] = len(jobs)
        c.coverage["exhaustive"] = True
        c.sample({"config": jobs[len(jobs) // 2]["config"], "options": jobs[len(jobs) // 2]["options"], "rows": jobs[len(jobs) // 2]["rows"][:2],
                  "header": jobs[len(jobs) // 2]["header"]})
        c.coverage["rule"] = ("every .dat configuration dim {2,3} x compositions 0..3 x grain compositions 0..2 x grains 0..3 x convert spherical x "
                              "comma/space separated x lengths written as metres or as \"<km>e3\" x option lines {all before the rows, all after the last row, spread between blocks of rows}, each run through the real gwb-dat on a world with distinguishable values in every slot; the "
                              "printed table is validated by TLC against the specified header / row shape and every cell compared with what the "
                              "library returns for that row in-process; plus twelve malformed-row files (wrong field counts; fields that only start with a number). non-trivial: all configurations")
        c.assumptions += ["a cell matches if it is what operator<< prints for the library value (%g, 6 significant digits)"]
    finally:
        shutil.rmtree(tmp, ignore_errors=True)
    return c.finish()
