"""C01 -- purity of query answers and layout of batched replies (spec/C01.tla)."""
import json, os
from lib import build, tlc, replay, report, datfiles

NP = 6
ALPHA = {"T": [1, 0, 0], "C0": [2, 0, 0], "C1": [2, 1, 0], "G0x2": [3, 0, 2], "Tag": [4, 0, 0], "V": [5, 0, 0]}


def file_prologue(exe, c):
    """Opaque repository worlds: target lists F<f> and references F/<f>/<i>/<prop>, every file's references computed in a
    harness process of its own (nothing else has been constructed or queried there)."""
    worlds = datfiles.repo_worlds(max_points=NP)
    isolated = []
    for f, w in enumerate(worlds, 1):
        pts = [w["points"][i % len(w["points"])] for i in range(NP)]
        w["targets"] = [dict(pt, h=0, pre="F/%d/%d/" % (f, i + 1)) for i, pt in enumerate(pts)]
        steps = [{"op": "create", "h": 0, "path": w["path"], "default_seed": True, "expect": "any"}]
        for t in w["targets"]:
            for nm, pr in ALPHA.items():
                steps.append(dict(t, op="q", props=[pr], save=t["pre"] + nm, may_throw=True))
        isolated.append(json.dumps({"id": ["ref", f], "labels": ["isolated-reference"], "steps": steps}))
    # shards = number of behaviours: one process per world
    res = replay.replay(exe, isolated, shards=len(isolated), dump=True, timeout_s=60)
    steps = []; kept = []
    for f, (w, b) in enumerate(zip(worlds, isolated), 1):
        saves = res.saves.get(b, {})
        steps.append({"op": "defpath", "name": "F%d" % f, "path": w["path"]})
        steps.append({"op": "deftargets", "name": "F%d" % f, "targets": w["targets"]})
        if not saves: continue                      # a file that is meant not to build: creating it fails, its steps are skipped
        kept.append(f)
        for nm, vals in saves.items():
            if all(v == v and abs(v) != float("inf") for v in vals):
                steps.append({"op": "defsave", "name": nm, "v": vals})
    c.notes["opaque_files"] = {"candidates": len(worlds), "built": len(kept), "references": sum(1 for s in steps if s["op"] == "defsave")}
    return json.dumps({"id": "file-prologue", "global": True, "steps": steps}), len(worlds), kept


def run(tier):
    c = report.Check("C01", "model_checking", tier)
    exe = build.build("rel", ("replay",))["replay"]
    quick = tier != "thorough"
    # layout machine: every property list up to MaxLen; TLC checks Mech = Prop on each
    lay = tlc.run("C01.tla", "C01_layout_quick.cfg" if quick else "C01_layout_thorough.cfg", workers=8, timeout=1500)
    c.add_tlc(lay, "layout")
    prologue = [b for b in lay.behaviours if '"global":true' in b[:200]]
    if len(prologue) != 1:
        raise tlc.SetupError("expected exactly one prologue, got %d" % len(prologue))
    lists = [b for b in lay.behaviours if '"global":true' not in b[:200]]
    # life-cycle machine: exhaustive histories (quick: depth 3) + simulated long histories (thorough)
    hist = tlc.run("C01.tla", "C01_hist_quick.cfg" if quick else "C01_hist_thorough.cfg", workers=8, timeout=1500)
    c.add_tlc(hist, "history")
    hb = [b for b in hist.behaviours if '"global":true' not in b[:200]]
    if not quick:
        sim = tlc.run("C01.tla", "C01_hist_sim.cfg", workers=8, timeout=900, simulate=300, depth=27, seed=c.seed)
        c.add_tlc(sim, "history-simulate")
        hb += [b for b in sim.behaviours if '"global":true' not in b[:200]]
    res = replay.replay(exe, prologue + lists + hb, shards=16)
    c.add_replay(res, "layout lists + life-cycle histories")
    # opaque-file machine over the repository's own worlds
    fpro, nf, kept = file_prologue(exe, c)
    env = {"C01_NF": nf, "C01_NP": NP}
    rr = tlc.run("MC_C01_rr.tla", "C01_rr.cfg", workers=2, timeout=600, env=env)
    c.add_tlc(rr, "all files of a chunk alive, round-robin")
    fb = [b for b in rr.behaviours if '"all-alive"' in b[:80]]
    fs = tlc.run("C01.tla", "C01_files_sim.cfg", workers=8, timeout=600, simulate=60 if quick else 600, depth=44, seed=c.seed, env=env)
    c.add_tlc(fs, "file life-cycle histories (simulation)")
    fb += [b for b in fs.behaviours if '"file-history"' in b[:80]]
    # histories may name files that do not build: their create fails as expected and their steps are skipped
    fb = [b.replace('"default_seed":true}', '"default_seed":true,"expect":"any"}') for b in fb]
    fres = replay.replay(exe, [fpro] + fb, shards=16, timeout_s=120)
    c.add_replay(fres, "repository worlds: interleaved histories vs references taken in isolated processes")
    from lib import gen
    gb = gen.behaviours(c, tier, "purity")
    gres = replay.replay(exe, gb, shards=16, timeout_s=300)
    gres.n = len(gb)
    c.add_replay(gres, "documents of the world-file grammar: twin worlds bitwise, every block of a batched reply vs the property asked alone, reversed list")
    c.coverage["grammar_documents"] = len(gb)
    c.sample(fb[-1][:2000] + "...")
    c.sample(lists[len(lists) // 2]); c.sample(hb[len(hb) // 2])
    c.coverage["exhaustive"] = quick
    c.coverage["rule"] = ("every property list over an 8-element alphabet (T, C0, C1, G0x1, G0x2, G1x3, Tag, V) up to the "
                          "configured length, each queried batched at 76 targets (6 spec-rendered worlds x 8 probes x 2D/3D) and "
                          "compared block by block, bitwise, with stand-alone references taken on a separate pristine world; plus "
                          "life-cycle histories over two handles (create/release/batched/single-entry-point queries); plus the repository's own "
                          "tests/gwb-dat worlds without random models as opaque files: all files of a chunk alive at once and queried round-robin, and "
                          "simulated histories over three handles, compared bitwise with references computed in one isolated process per file; plus simulated "
                          "documents of the world-file grammar Gen.tla (every feature type, geometry, depth kind, deterministic model and operation), each "
                          "built twice and asked an 11-property list at 1106 points: twin bitwise, every block vs the property asked alone, reversed list. "
                          "non-trivial = behaviours with at least one feature-covered target (all of them); distinct = distinct "
                          "TLC states / histories")
    c.coverage["distinct_nontrivial"] = len(set(lists)) + len(set(hb)) + len(set(fb)) + len(gb)
    c.assumptions += ["worlds are the six renderings of spec/C01.tla's configuration (every feature type, uniform models); "
                      "other model types enter through C05/C13", "release build (-O2 -DNDEBUG)"]
    return c.finish()
