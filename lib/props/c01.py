"""C01 -- purity of query answers and layout of batched replies (spec/C01.tla)."""
from lib import build, tlc, replay, report


def run(tier):
    c = report.Check("C01", "model_checking", tier)
    exe = build.build("rel", ("replay",))["replay"]
    quick = tier != "thorough"
    # layout machine: every property list up to MaxLen; TLC checks Mech = Prop on each
    lay = tlc.run("C01.tla", "C01_layout_quick.cfg" if quick else "C01_layout_thorough.cfg", workers=8, timeout=1500)
    c.add_tlc(lay, "layout")
    prologue = [b for b in lay.behaviours if '"global":true' in b[:200]]
    if len(prologue) != 1:
        raise tlc.SetupError("expected exactly one prologue, got %d" % len(prologue))
    lists = [b for b in lay.behaviours if '"global":true' not in b[:200]]
    # life-cycle machine: exhaustive histories (quick: depth 3) + simulated long histories (thorough)
    hist = tlc.run("C01.tla", "C01_hist_quick.cfg" if quick else "C01_hist_thorough.cfg", workers=8, timeout=1500)
    c.add_tlc(hist, "history")
    hb = [b for b in hist.behaviours if '"global":true' not in b[:200]]
    if not quick:
        sim = tlc.run("C01.tla", "C01_hist_sim.cfg", workers=8, timeout=900, simulate=2500, depth=24, seed=c.seed)
        c.add_tlc(sim, "history-simulate")
        hb += [b for b in sim.behaviours if '"global":true' not in b[:200]]
    res = replay.replay(exe, prologue + lists + hb, shards=16)
    c.add_replay(res, "layout lists + life-cycle histories")
    c.sample(lists[len(lists) // 2]); c.sample(hb[len(hb) // 2])
    c.coverage["exhaustive"] = quick
    c.coverage["rule"] = ("every property list over an 8-element alphabet (T, C0, C1, G0x1, G0x2, G1x3, Tag, V) up to the "
                          "configured length, each queried batched at 76 targets (6 spec-rendered worlds x 8 probes x 2D/3D) and "
                          "compared block by block, bitwise, with stand-alone references taken on a separate pristine world; plus "
                          "life-cycle histories over two handles (create/release/batched/single-entry-point queries). "
                          "non-trivial = behaviours with at least one feature-covered target (all of them); distinct = distinct "
                          "TLC states / histories")
    c.coverage["distinct_nontrivial"] = len(set(lists)) + len(set(hb))
    c.assumptions += ["worlds are the six renderings of spec/C01.tla's configuration (every feature type, uniform models); "
                      "other model types enter through C05/C13", "release build (-O2 -DNDEBUG)"]
    return c.finish()
