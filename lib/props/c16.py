"""C16 -- the C and C++ wrappers are transparent (spec/CApi.tla)."""
from lib import build, tlc, replay, report


def run(tier):
    c = report.Check("C16", "model_checking", tier)
    exe = build.build("rel", ("replay",))["replay"]
    r = tlc.run("CApi.tla", "CApi.cfg", workers=8, timeout=900)
    c.add_tlc(r, "create_world argument combinations; refinement mapping onto World actions")
    res = replay.replay(exe, r.behaviours, shards=16, timeout_s=120)
    c.add_replay(res, "every C / wrapper action next to the World action it maps to, bitwise")
    quick = tier != "thorough"
    h = tlc.run("CApi.tla", "CApi_hist.cfg", workers=8, timeout=1800, simulate=25 if quick else 1500, depth=60, seed=c.seed)
    c.add_tlc(h, "wrapper life-cycle machine (simulated histories): create / release / properties / single-property calls / sizes on two handles")
    hb = list(dict.fromkeys(h.behaviours))
    if len(hb) < 10: raise tlc.SetupError("the life-cycle machine emitted no histories")
    hres = replay.replay(exe, hb, shards=16, timeout_s=120)
    hres.n = len(hb)
    c.add_replay(hres, "histories of wrapper calls, each next to the World call on the twin handle, bitwise")
    c.coverage["histories"] = len(hb) - 1
    from lib import gen
    gb = gen.behaviours(c, tier, "wrapper")
    gres = replay.replay(exe, gb, shards=16, timeout_s=300)
    gres.n = len(gb)
    c.add_replay(gres, "documents of the world-file grammar built natively and through create_world: properties_3d vs World::properties, bitwise")
    c.coverage["grammar_documents"] = len(gb)
    c.sample(r.behaviours[0][:2500] + "...")
    c.coverage["exhaustive"] = True
    c.coverage["distinct_nontrivial"] = res.stats.get("by_check", {}).get("bits", 0) + hres.stats.get("by_check", {}).get("bits", 0)
    c.coverage["rule"] = ("create_world / wrapper constructor with every combination of {C API, C++ wrapper} x {null, non-null flag pointer} x "
                          "{no directory, multi-character relative directory} x 6 seeds (1, 2, 1000, 2^31-1, 2^32+5, 0); then every query "
                          "function at 15 points (2D and 3D) x property lists, each next to the native call it must equal bit for bit; the world "
                          "contains random composition and random grains models so the seed is observable; the directory is observed through the "
                          "schema file the constructor writes; plus simulated histories (about 20 wrapper calls each) of the life-cycle machine: two wrapper "
                          "handles bound to {C, C++} x {Cartesian, spherical document} x 3 seeds, created, queried (5 property lists, 4 single-property "
                          "entry points, 2D and 3D, 4 probes), sized and released in any order. non-trivial = side-by-side comparisons made")
    c.assumptions += ["the random models make replies depend on the seed and on the number of earlier queries, which are identical on both sides"]
    return c.finish()
