"""C12 -- malformed or inconsistent input is rejected by an exception, never by a crash (spec/Parse.tla)."""
import json
from lib import build, tlc, replay, report, jsonmut


def run(tier):
    c = report.Check("C12", "model_checking", tier)
    quick = tier != "thorough"
    exe = build.build("san", ("replay",))["replay"]
    r = tlc.run("Parse.tla", "Parse_quick.cfg" if quick else "Parse_thorough.cfg", workers=12, timeout=2400, heap="12g")
    c.add_tlc(r, "mutation catalogue x {Cartesian, spherical} base documents" + ("" if quick else " and pairs of mutations"))
    dbg = json.loads(r.records.get("X", ["{}"])[-1])
    c.notes["rejections the transcribed pipeline only makes in a debug build (Mech |/= Prop, information)"] = dbg
    beh = list(dict.fromkeys(r.behaviours))
    # byte-level damage and formatting variants of the base documents (option tuples of spec/Parse.tla's FormatOptions)
    if not r.records.get("F"): raise tlc.SetupError("Parse.tla emitted no base documents for the formatting variants")
    fmt = jsonmut.variants(r.records.get("F", []), quick)
    res = replay.replay(exe, beh + fmt, shards=16, timeout_s=60)
    c.add_replay(res, "construction (and four probe queries) under AddressSanitizer + UndefinedBehaviorSanitizer")
    c.sample(beh[len(beh) // 2][:1500] + "..."); c.sample(beh[3][:600] + "...")
    if fmt: c.sample(fmt[len(fmt) // 2][:800] + "...")
    c.coverage["exhaustive"] = True
    c.coverage["distinct_nontrivial"] = len(beh) + len(fmt)
    c.coverage["structural_documents"] = len(beh); c.coverage["byte_level_and_formatting_documents"] = len(fmt)
    c.coverage["rule"] = ("every mutation of the catalogue (missing / unknown keys, wrong types, unsupported option values, wrong versions, "
                          "inconsistent list lengths, numeric extremes; about 270 per base document) applied by the specification to the Cartesian "
                          "and the spherical kitchen-sink document" + ("" if quick else ", every pair (reduced catalogue x catalogue)") +
                          "; plus byte-level damage (truncation at and replacement of every k-th byte) and formatting variants (key order, "
                          "white space, comments) produced by a generic re-serialiser; each document is constructed under ASan+UBSan and, if "
                          "it builds, queried. non-trivial: all (every document differs from the valid base)")
    c.assumptions += ["byte strings that are not mutations of a valid document are not explored; rapidjson's own robustness is trusted",
                      "uninitialised reads are only observed through UBSan (invalid enum / bool loads) and through their effects"]
    return c.finish()
