"""C10 -- segment models are inherited and sections interpolate only between neighbours (spec/Sections.tla)."""
from lib import build, tlc, replay, report, gen


def run(tier):
    c = report.Check("C10", "model_checking", tier)
    exe = build.build("rel", ("replay",))["replay"]
    r = tlc.run("Sections.tla", "Sections.cfg", workers=12, timeout=1800, heap="12g")
    c.add_tlc(r, "placement of temperature / composition models at feature / section / segment level for each of three coordinates")
    beh = list(dict.fromkeys(r.behaviours))
    gv = [b for b in beh if '"sections-gv"' in b[:100]]        # grains / velocity placement: always all of them
    if not gv: raise tlc.SetupError("Sections.tla emitted no grains / velocity placement behaviours")
    beh = [b for b in beh if '"sections-gv"' not in b[:100]]
    if tier != "thorough":
        geo = [b for b in beh if '"geometry"' in b[:400]]
        import zlib
        # every second placement / third table, chosen by a hash (a stride would pick one value of an alternating dimension only)
        pick = lambda b, n: zlib.crc32(b.encode()) % n == c.seed % n
        beh = [b for b in beh if '"geometry"' not in b[:400] and pick(b, 2)] + [b for b in geo if pick(b, 3)]
    beh += gv
    res = replay.replay(exe, beh, shards=16, timeout_s=120)
    c.add_replay(res, "as-written vs explicit vs repeated layouts (bitwise), resolved values, interpolation bounds, locality of an override")
    c.sample(beh[len(beh) // 2][:3000] + "...")
    # documents of the world-file grammar with a slab or fault: the explicit form (a section entry for every coordinate, every
    # segment carrying the model lists it would have inherited) must answer bit for bit like the document as written
    gb = gen.behaviours(c, tier, "explicit")
    gres = replay.replay(exe, gb, shards=16, timeout_s=180)
    c.add_replay(gres, "world-file grammar: explicit form of the document = document as written, bit for bit")
    c.coverage["grammar_documents"] = len(gb)
    c.coverage["exhaustive"] = tier == "thorough"
    c.coverage["distinct_nontrivial"] = len(beh)
    c.coverage["rule"] = ("slabs and faults with three trench coordinates; for every coordinate: no section entry, or an entry whose temperature "
                          "and composition models are each inherited / given at section level / given inside the segment (10^3 placements x 2 kinds; "
                          "quick replays every second one). Per placement: the world as written, with every model written into every segment, and "
                          "with the default segments repeated for every coordinate must answer bit-identically at 9 positions along the trench; values "
                          "lie between the resolved values of the two neighbouring coordinates and equal the coordinate's own at the coordinate; removing "
                          "one coordinate's entry leaves the answers outside its two neighbours bit-identical. Geometry family: a vertical two-segment feature whose "
                          "section entries override segment lengths (incl. zero-length placeholder segments) and thickness per coordinate (13^3 tables x 2 "
                          "kinds; quick every third): which segment a depth falls in, where the feature ends and how thick it is lie between the two "
                          "neighbouring sections' values and equal a section's own at its coordinate. Grains and velocity models declared for one coordinate at "
                          "section or segment level, with or without a feature-level model, against the explicit and the repeated layout, bitwise. Plus the documents of the world-file grammar Gen.tla that "
                          "contain a slab or fault (curved and oblique trenches, 2-4 coordinates, one- and two-segment tables, every deterministic model, section entries with "
                          "models of their own at section or segment level for one coordinate): the explicit form - a section entry for every coordinate, every segment "
                          "carrying the four model lists it inherits - answers bit for bit like the document as written on the whole lattice. "
                          "non-trivial: placements / tables with at least one entry")
    c.assumptions += ["uniform models; straight trench (the interpolation weight is only asserted to be a convex combination, as the statement says)"]
    return c.finish()
