"""C07 -- acceleration shortcuts never change an answer (spec/Slab.tla culling Mech, spec/Culling.tla)."""
from lib import build, tlc, replay, report, gen


def run(tier):
    c = report.Check("C07", "model_checking", tier)
    exe = build.build("rel", ("replay",))["replay"]
    quick = tier != "thorough"
    r = tlc.run("Slab.tla", "SlabCull_quick.cfg" if quick else "SlabCull_thorough.cfg", workers=12, timeout=3000, heap="16g")
    c.add_tlc(r, "straight trenches: no member of the exact planar construction is discarded by the transcribed pre-filter (depth cut-off, bounding box + buffer)")
    beh = list(dict.fromkeys(r.behaviours))
    if quick: beh = [b for b in beh if replay.pick(b, 3, c.seed)]
    r2 = tlc.run("Culling.tla", "Culling.cfg", workers=8, timeout=1200, heap="12g")
    c.add_tlc(r2, "curved / spherical / dateline trenches and variable depth surfaces (differential only)")
    b2 = list(dict.fromkeys(r2.behaviours))
    if quick: b2 = [b for b in b2 if replay.pick(b, 2, c.seed) or '"depth-surfaces"' in b[:300]]
    b3 = gen.behaviours(c, tier, "culling")      # documents of the world-file grammar
    res = replay.replay(exe, beh + b2 + b3, shards=16, timeout_s=300)
    c.add_replay(res, "every query answered twice: shortcuts as built vs neutralised (GWB_VERIF hook), bitwise")
    c.sample(beh[0][:1500] + "..."); c.sample(b2[0][:1500] + "...")
    c.coverage["exhaustive"] = not quick
    c.coverage["distinct_nontrivial"] = len(beh) + len(b2) + len(b3)
    c.coverage["grammar_documents"] = len(b3)
    c.coverage["twin_queries"] = res.stats.get("by_check", {}).get("twin", 0)
    c.coverage["rule"] = ("straight-trench slabs and faults of Slab.tla (segment tables, thickness / truncation pairs, min depth 0 / 100 km, three "
                          "trench directions) on a grid reaching beyond the buffer; spherical trenches (oblique at 40-70 N, crossing the +-180 meridian "
                          "at 60-80 N and at the equator, along a meridian, curved with 3-4 coordinates) x dip side x 4 shapes (length 400-1500 km, dip "
                          "20-80, min depth 0-100 km) x slab/fault on a lon/lat/depth grid extending 40 / 16 degrees beyond the trench; Cartesian curved "
                          "trenches; area features of the three types with min and max depth given at points, Cartesian and spherical, probed 1 km "
                          "around the nodal minima and maxima; plus simulated documents of the world-file grammar Gen.tla (every feature type, geometry, depth "
                          "kind and deterministic model) on a lattice of 1106 points. non-trivial: all worlds (quick runs every third / second of them)")
    c.assumptions += ["the hook neutralises the bounding box, the length-based depth cut-off and the min/max pre-test; the nearest-triangle search of depth "
                      "surfaces is covered by C11 (exact oracle) and C19 (kd-tree)"]
    return c.finish()
