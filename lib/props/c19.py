"""C19 -- geometric kernels agree with their brute-force definitions (spec/Kernels.tla, spec/Extent.tla)."""
from lib import build, tlc, replay, report


def run(tier):
    c = report.Check("C19", "model_checking", tier)
    exe = build.build("rel", ("replay",))["replay"]
    quick = tier != "thorough"
    suffix = "quick" if quick else "thorough"
    beh = []
    g = tlc.run("MC_Kernels_gc.tla", "Kernels_gc.cfg", workers=2, timeout=600)
    c.add_tlc(g, "great circle on the 26-direction configuration: Mech (clamped) = Prop (ASSUME)")
    beh += g.behaviours          # great-circle and round-trip behaviours (constant-level emissions)
    kd = tlc.run("Kernels.tla", "Kernels_kd_%s.cfg" % suffix, workers=12, timeout=3000, heap="12g")
    c.add_tlc(kd, "kd-tree: every point set, every arrangement nth_element may leave, every query: Mech |= Prop")
    beh += [b for b in kd.behaviours if '"kdtree"' in b[:60]]
    bz = tlc.run("Kernels.tla", "Kernels_bezier_%s.cfg" % suffix, workers=12, timeout=3000, heap="12g")
    c.add_tlc(bz, "polylines with bends <= 60 degrees (exact integer test)")
    beh += [b for b in bz.behaviours if '"bezier"' in b[:60]]
    pg = tlc.run("Extent.tla", "Extent_kernel_%s.cfg" % suffix, workers=12, timeout=3000, heap="16g")
    c.add_tlc(pg, "polygon test: Mech (winding-number code) = Prop on every simple polygon x probe")
    beh += pg.behaviours
    beh = list(dict.fromkeys(beh))
    for key in ('"great-circle"', '"roundtrip"', '"kdtree"', '"bezier"', '"polygon', '"bezier-zigzag"'):
        if not any(key in b[:80] for b in beh): raise tlc.SetupError("no %s behaviours were emitted" % key)
    res = replay.replay(exe, beh, shards=16, timeout_s=300)
    c.add_replay(res, "direct kernel calls")
    for key in ('"kdtree"', '"bezier"', '"great-circle"'):
        for b in beh:
            if key in b[:80]: c.sample(b[:1200] + "..."); break
    c.coverage["exhaustive"] = True
    c.coverage["distinct_nontrivial"] = len(beh)
    c.coverage["kernel_calls_by_kind"] = res.stats.get("by_check", {})
    c.coverage["rule"] = ("kd-tree: all sets of 1..MaxPts lattice points (4x4 lattice) x all 81 doubled-lattice queries on the real tree; polygon: "
                          "all simple polygons with 3..MaxV vertices x 81 probes through Utilities::polygon_contains_point; great circle: all 676 "
                          "ordered pairs of the 26 directions with coordinates in {-1,0,1} (angles 0..180 degrees); Bezier: all polylines with 2..BMax "
                          "points on the lattice whose bends are <= 60 degrees x 9 query points around every coordinate and a coarse grid of far query points vs a dense brute-force "
                          "sample; round trip on 129 points incl. axis and near-dateline points. non-trivial = distinct inputs (all)")
    c.assumptions += ["Bezier: 'noticeably closer' = closer by more than 1e-6 x longest segment + 1 mm (+ sampling error) over 400/2000 samples per segment; "
                      "a missing foot (infinite distance) is accepted: query points near the ends of a curve may have their foot outside it; for query points "
                      "up to two lattice units (200 km) outside the lattice region 'noticeably' also allows 0.5 % of the distance",
                      "great-circle tolerance 1e-6 R (acos is ill-conditioned near 0 and 180 degrees)"]
    return c.finish()
