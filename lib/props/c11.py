"""C11 -- depth surfaces given at points are honoured, affine-exact and bounded (spec/Surface.tla)."""
from lib import build, tlc, replay, report


def run(tier):
    c = report.Check("C11", "model_checking", tier)
    exe = build.build("rel", ("replay",))["replay"]
    r = tlc.run("Surface.tla", "Surface.cfg" if tier != "thorough" else "Surface_thorough.cfg", workers=12, timeout=1800, heap="12g")
    c.add_tlc(r, "polygon x listed corners x interior points x affine/bumped x entry order; merge mechanism refines the nodal-value specification")
    beh = list(dict.fromkeys(r.behaviours))
    res = replay.replay(exe, beh, shards=16, timeout_s=60)
    c.add_replay(res, "max depth surfaces observed through the depth at which a uniform composition switches off")
    c.sample(beh[len(beh) // 2][:2500] + "...")
    c.coverage["exhaustive"] = True
    c.coverage["distinct_nontrivial"] = len(beh)
    c.coverage["rule"] = ("3 polygons (two rectangles, one with corners on the axes, and a pentagon) x every subset of listed corners x 0-2 listed "
                          "interior points x {nodal values on one affine function, values bumped off it} x {corners first, interior points first} x a second "
                          "point-less entry {absent, at the end (quick), also between the groups (thorough)} x area type x {max, min, both}; on the second polygon also as the min / max depth of the feature's composition or "
                          "temperature model, and in spherical worlds (lattice unit 1 degree; corner probes are left out there); the "
                          "depth used is observed 1 m above and 1 m below the predicted depth at every nodal point, at every half-lattice point "
                          "inside (affine: the exact affine value; otherwise the min / max nodal bounds). non-trivial: all configurations")
    c.assumptions += ["Cartesian integer-metre coordinates are exact; on the sphere polygon corners are boundary points only up to rounding and are not probed"]
    return c.finish()
