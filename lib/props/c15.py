"""C15 -- seeded randomness is reproducible and random grains are valid (spec/Rng.tla)."""
from lib import build, tlc, replay, report


def run(tier):
    c = report.Check("C15", "model_checking", tier)
    exe = build.build("rel", ("replay",))["replay"]
    quick = tier != "thorough"
    r = tlc.run("Rng.tla", "Rng_quick.cfg" if quick else "Rng_thorough.cfg", workers=12, timeout=2400, heap="12g")
    c.add_tlc(r, "query histories per (feature type, random model, seed); draw counter")
    beh = list(r.behaviours)
    if not quick:
        sim = tlc.run("Rng.tla", "Rng_sim.cfg", workers=8, timeout=900, simulate=40, depth=32, seed=c.seed)
        c.add_tlc(sim, "long histories (simulation)")
        beh += sim.behaviours
    beh = list(dict.fromkeys(beh))
    res = replay.replay(exe, beh, shards=16, timeout_s=120)
    c.add_replay(res, "twin worlds (seed via constructor / via file), a third seed, shadow mt19937")
    c.sample(beh[len(beh) // 2][:3000] + "...")
    c.coverage["exhaustive"] = True
    c.coverage["distinct_nontrivial"] = len(beh)
    c.coverage["rule"] = ("11 worlds (every feature type x {random uniform distribution, ...deflected}; the continental plate also has a random "
                          "composition with different bounds per composition) x seeds x every history of 2 (quick) / 3 (thorough, plus simulated "
                          "histories of 30) queries over an 8-query alphabet (grains with random / fixed sizes and 1-3 grains, random "
                          "compositions, non-random requests, a mixed batch, a point outside); after every query: twin replies bitwise equal, "
                          "other seed differs, both engines equal a shadow mt19937 at seed + 2*pos words, rotations proper (1e-12), sizes, bounds. "
                          "non-trivial: all histories (each contains queries)")
    c.assumptions += ["a uniform double consumes two 32-bit words of mt19937 (libstdc++ generate_canonical<double,53>)"]
    return c.finish()
