"""C05 -- models documented by a closed-form expression return that expression (spec/Models.tla)."""
from lib import build, tlc, replay, report


def run(tier):
    c = report.Check("C05", "exploration", tier)
    exe = build.build("rel", ("replay",))["replay"]
    r = tlc.run("Models.tla", "Models.cfg", workers=12, timeout=1800, heap="12g")
    c.add_tlc(r, "model x feature type x sentinel pattern x depth-range relation x operation")
    allb = list(dict.fromkeys(r.behaviours))
    fam = lambda b: b[b.find('["', 6) + 2:].split('"')[0]
    beh = [b for b in allb if fam(b) != "tian"]
    # the tian2019 family is specification growth beyond the models C05 lists: conformance is reported, never a verdict
    beyond = [b for b in allb if fam(b) == "tian"]
    rb = replay.replay(exe, beyond, shards=16, timeout_s=60)
    c.notes["beyond_property"] = {"family": "tian water content (oceanic plate, subducting plate): pressure clamp, cut-off, cap by the initial water content, "
                                  "wt% -> fraction, the three polynomials of the four lithologies, operations", "behaviours": rb.n,
                                  "queries": rb.stats.get("queries", 0), "deviations": len(rb.mismatches), "first": rb.mismatches[:3]}
    for m in rb.mismatches[:5]: print("NOTE beyond-property deviation (tian2019, information only):", str(m)[:300])
    res = replay.replay(exe, beh, shards=16, timeout_s=60)
    c.add_replay(res, "World::properties vs the documented expression evaluated by the generic term evaluator")
    c.sample(beh[0][:2500] + "...")
    fams = {}
    for b in beh:
        k = b[b.find('["', 6) + 2:].split('"')[0]
        fams[k] = fams.get(k, 0) + 1
    c.coverage["cases_by_family"] = fams
    c.coverage["evaluations"] = res.stats.get("queries", 0)
    c.coverage["distinct_nontrivial"] = len(beh)
    c.coverage["rule"] = ("cases enumerated by TLC: linear (3 area types x 6 relations between model and feature depth range x 4 sentinel patterns x 3 "
                          "operations), uniform (temperature and raw velocity), adiabatic (5 feature types x 4 sentinel patterns), Chapman, half space / "
                          "plate model / plate model constant age (bottom sentinel, two velocities or ages), Gaussian plume, linear-in-distance for slabs "
                          "and faults, smooth compositions, uniform models with their own range (slabs, faults, plumes), laterally varying plate depth, uniform "
                          "composition (fractions, four operations, own range) and uniform grains of all six feature types (listed matrices and sizes; z-x-z Euler angles against the documented matrix); each probed at the range ends, inside and (where it exists) in the feature but outside the model's range; "
                          "relative tolerance 1e-9 (1e-8 for the 100-term series). non-trivial: all cases")
    c.assumptions += ["TLC decides the case analysis, the arithmetic comparison is numeric (exploration with a model-derived oracle)",
                      "smooth compositions are asserted at their documented anchor values (top / bottom, centre / side) and to lie between them; tian2019 water content, mass conserving and slab plate-model temperatures have no documented closed form and are not claimed here"]
    return c.finish()
