"""C04 -- area features and plumes occupy exactly their declared footprint and depth range
(spec/Extent.tla, spec/Plume.tla)."""
from lib import build, tlc, replay, report


def run(tier):
    c = report.Check("C04", "model_checking", tier)
    exe = build.build("rel", ("replay",))["replay"]
    quick = tier != "thorough"
    ext = tlc.run("Extent.tla", "Extent_world_quick.cfg" if quick else "Extent_world_thorough.cfg", workers=12, timeout=3000, heap="16g")
    c.add_tlc(ext, "simple polygons on the lattice; Mech (winding-number code) = Prop for every probe")
    beh = list(ext.behaviours)
    sph = tlc.run("Extent.tla", "Extent_sph_quick.cfg" if quick else "Extent_sph_thorough.cfg", workers=12, timeout=3000, heap="16g")
    c.add_tlc(sph, "the same polygons as spherical footprints at three longitudes (ordinary, straddling +-180, beyond -180)")
    beh += sph.behaviours
    # local depth intervals: the depth range of an area feature given at points (Surface.tla, affine data, the polygon without zero coordinates)
    srf = tlc.run("Surface.tla", "Surface.cfg", workers=12, timeout=1800, heap="12g")
    c.add_tlc(srf, "area features whose min and/or max depth is a surface given at points (local depth interval)")
    beh += [b for b in srf.behaviours if '"affine"' in b[:400] and '"poly2"' in b[:400]]
    for cfg, nm in (("Plume_cart_quick.cfg", "plume tables, Cartesian"), ("Plume_sph_quick.cfg", "plume tables, spherical"),
                    ("Plume_cart_nohead.cfg", "plume tables, Cartesian, min depth below the first cross section (no head)"),
                    ("Plume_sph_dateline.cfg", "plume tables, spherical, the ellipse crosses the +180 meridian"),
                    ("Plume_sph_beyond.cfg", "plume tables, spherical, centres written at longitude 190"),
                    ("Plume_sph_west.cfg", "plume tables, spherical, centres written at longitude -180.2")):
        r = tlc.run("Plume.tla", cfg, workers=12, timeout=1800, heap="12g")
        c.add_tlc(r, nm)
        beh += r.behaviours
    if not quick:
        sim = tlc.run("Plume.tla", "Plume_sim.cfg", workers=8, timeout=1200, simulate=30, depth=4, seed=c.seed)
        c.add_tlc(sim, "plume tables with 3 sections (simulation)")
        beh += sim.behaviours
    beh = list(dict.fromkeys(beh))
    res = replay.replay(exe, beh, shards=16, timeout_s=60)
    c.add_replay(res, "area features (3 types stacked) per polygon; plume tables")
    c.sample(beh[0][:1500] + "..."); c.sample(beh[-1][:2500] + "...")
    c.coverage["exhaustive"] = True
    c.coverage["distinct_nontrivial"] = len(beh)
    c.coverage["near_boundary_skipped"] = res.stats.get("by_check", {}).get("member-skipped-near-boundary", 0)
    c.coverage["rule"] = ("every simple polygon with 3..MaxV vertices on a 4x4 lattice (canonical start vertex, both orientations, convex and "
                          "concave), as footprint of a continental plate, an oceanic plate and a mantle layer stacked in depth, queried at all 81 "
                          "points of the doubled lattice (vertices, edge points, interior, exterior; integer metres so boundary points are exact) "
                          "and at the ends of / just outside the depth interval; plume tables with 1-2 (thorough: 3) cross sections over centres x "
                          "axes x eccentricities x rotation angles (incl. pairs that cross north either way), Cartesian and spherical (also shifted in longitude so that the ellipse crosses the +-180 meridian or its centres are written at 190 / -180.2 degrees), probed at "
                          "64 surface points x cap / section / between-section (fractions 1/4, 1/3, 1/2, 0.925) / below-last / out-of-range depths. "
                          "non-trivial: every polygon and table (each has interior and exterior probes)")
    c.assumptions += ["plume membership asserted only where |F-1| > 1e-6 (F evaluated by the harness from the specification's term)",
                      "spherical polygons (3x3 lattice quick, 4x4 thorough; unit 5 degrees) are asserted at interior / exterior lattice points only; boundary points are exact only in Cartesian integer metres"]
    return c.finish()
