"""C08 -- answers are invariant under rigid motions of world plus query (spec/Motion.tla)."""
from lib import build, tlc, replay, report


def run(tier):
    c = report.Check("C08", "model_checking", tier)
    exe = build.build("rel", ("replay",))["replay"]
    quick = tier != "thorough"
    r = tlc.run("Motion.tla", "Motion.cfg" if quick else "Motion_thorough.cfg", workers=12, timeout=3000, heap="16g")
    c.add_tlc(r, "frames (rational rotations x translations; longitude offsets); exact group structure on the lattice")
    beh = list(dict.fromkeys(r.behaviours))
    ridges = [b for b in beh if '"ridge-shapes"' in b[:600]]
    if not ridges: raise tlc.SetupError("Motion.tla emitted no ridge-shape behaviours")
    trench = [b for b in beh if '"trench-shapes"' in b[:600]]
    beh = [b for b in beh if '"trench-shapes"' not in b[:600]] + [b for b in trench if replay.pick(b, 11 if quick else 2, c.seed)]
    if not quick:
        sim = tlc.run("Motion.tla", "Motion_sim.cfg", workers=8, timeout=3000, heap="16g", simulate=60, depth=8, seed=c.seed)
        c.add_tlc(sim, "simulated trenches of up to 6 points on the 4x4 lattice")
        sb = list(dict.fromkeys(sim.behaviours))
        if len(sb) < 50: raise tlc.SetupError("the trench simulation emitted too few polylines")
        beh += sb
    from lib import gen
    gb = gen.behaviours(c, tier, "motion")          # documents of the world-file grammar, written against a second frame
    beh += gb
    c.coverage["grammar_documents"] = len(gb)
    res = replay.replay(exe, beh, shards=16, timeout_s=120)
    c.add_replay(res, "base world at p vs moved world at g.p")
    c.sample(beh[0][:2500] + "...")
    c.coverage["exhaustive"] = True
    c.coverage["distinct_nontrivial"] = len(beh)
    c.coverage["twin_queries"] = res.stats.get("by_check", {}).get("twin", 0)
    c.coverage["twin_points_dropped_as_unstable_under_jitter"] = res.stats.get("by_check", {}).get("twin-dropped-unstable", 0)
    c.coverage["rule"] = ("one world with every coordinate-bearing entry (area features, a depth surface given at points, a plume with rotated "
                          "elliptic sections, a slab on a curved trench with a mass-conserving temperature and its ridge, a curved fault, half-space and "
                          "plate-model plates with oblique ridges, a cross section) written against 17 Cartesian frames (rotations by 90, 180, 53.13, "
                          "143.13, -67.38 degrees x translations up to 1e7 m) and 6 longitude offsets (30..175, -175, -185 degrees: features cross the "
                          "+-180 meridian), compared at 16 interior probes (>= 10 km from boundaries) with the base world, all of temperature, 7 "
                          "compositions and tag, tolerance 1e-6; spherical probes also with longitude +-360. Trench family: slabs and faults on every "
                          "polyline of 3 (thorough: up to 4) points of a 3x3 (4x4) lattice without exactly collinear triples -- sharp turns, "
                          "axis-parallel parts, V and S shapes -- with a temperature linear in the distance from the plane, under three rotations / "
                          "translations, compared on a dense lattice of points at two depths (an eleventh of the worlds per quick run, half of them per thorough run, plus simulated trenches of up to 6 points on the 4x4 lattice); a "
                          "Ridge family: an oceanic plate (half space / plate model) measured against two- and three-piece ridges with oblique transform faults and "
                          "a bent ridge, spreading velocity per ridge point, under the three trench frames on a 26 x 27 x 2 lattice. "
                          "Plus simulated documents of the world-file grammar Gen.tla, each written against a second frame (three rotations / translations, "
                          "longitude offsets 100, 172, -184) and compared on a grid of 143 positions x 7 depths; a disagreement is dropped (and counted) only if the base world's own answer is unstable under a 1e-7 jitter. non-trivial: all")
    c.assumptions += ["probes are at least 10 km from every feature boundary, so membership cannot flip by rounding; the statement's 'up to rounding' is taken as 1e-6 relative",
                      "velocities and grain orientations are not compared (the statement lists temperature, composition, tag and grains; no grains models here)"]
    return c.finish()
