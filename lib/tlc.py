"""Run TLC under a time limit and collect what it explored and the behaviours it emitted.

Behaviours are printed by the specification itself as  <<"B", "<json>">>  lines (PrintT of ToJson),
one per distinct state / history TLC visits.  A TLC failure (parse error, invariant of the
specification violated, time-out) is a *broken setup* (exit 2), never a property violation: the
verdict of a check only ever comes from comparing the real code with the specification.
"""
import json, os, re, shutil, subprocess, sys, tempfile, time

VERIF = os.path.dirname(os.path.dirname(os.path.abspath(__file__)))
SPEC = os.path.join(VERIF, "spec")
JAR = "/opt/veriftools/tla/tla2tools.jar:/opt/veriftools/tla/CommunityModules-deps.jar"


class TlcResult:
    def __init__(self):
        self.generated = 0; self.distinct = 0; self.behaviours = []; self.records = {}
        self.exit = None; self.out = ""; self.wall = 0.0; self.coverage = {}; self.violated = None
        self.depth = 0


class SetupError(Exception):
    pass


def run(module, cfg, workers=8, timeout=900, simulate=None, depth=None, seed=None, env=None,
        coverage=False, heap="8g", expect_violation=False, quiet=False, deadlock=False, dfs=False):
    """module: file name in /verif/spec; cfg: file name in /verif/spec/mc."""
    md = tempfile.mkdtemp(prefix="tlcmd_", dir=os.path.join(VERIF, ".cache"))
    cmd = ["java", "-XX:+UseParallelGC", "-Xmx" + heap, "-Xss128m"]
    if dfs:
        cmd.append("-Dtlc2.tool.queue.IStateQueue=StateDeque")
    cmd += ["-cp", JAR, "tlc2.TLC", "-workers", str(workers), "-metadir", md, "-config", os.path.join(SPEC, "mc", cfg)]
    if not deadlock:
        cmd += ["-deadlock", "-noGenerateSpecTE"]   # generators end on purpose; no trace-explorer files
    if simulate:
        cmd += ["-simulate", "num=%d" % simulate]
        if depth: cmd += ["-depth", str(depth)]
    if seed is not None:
        cmd += ["-seed", str(seed)]
    if coverage:
        cmd += ["-coverage", "1"]
    cmd.append(os.path.join(SPEC, module))
    e = dict(os.environ)
    if env: e.update({k: str(v) for k, v in env.items()})
    t0 = time.time()
    r = TlcResult()
    try:
        p = subprocess.run(cmd, cwd=SPEC, env=e, stdout=subprocess.PIPE, stderr=subprocess.STDOUT, text=True, timeout=timeout)
        r.exit = p.returncode; r.out = p.stdout
    except subprocess.TimeoutExpired as ex:
        r.exit = -9; r.out = (ex.stdout or b"").decode() if isinstance(ex.stdout, bytes) else (ex.stdout or "")
    finally:
        shutil.rmtree(md, ignore_errors=True)
    r.wall = time.time() - t0
    other = []
    for line in r.out.splitlines():
        if line.startswith('<<"'):
            m = re.match(r'<<"([A-Z]+)", (".*")>>$', line)
            if m:
                try:
                    payload = json.loads(m.group(2))
                except ValueError:
                    other.append(line); continue
                if m.group(1) == "B": r.behaviours.append(payload)
                else: r.records.setdefault(m.group(1), []).append(payload)
                continue
        other.append(line)
    txt = "\n".join(other)
    m = re.search(r"(\d+) states generated, (\d+) distinct states found", txt)
    if m: r.generated, r.distinct = int(m.group(1)), int(m.group(2))
    m = re.search(r"The depth of the complete state graph search is (\d+)", txt)
    if m: r.depth = int(m.group(1))
    m = re.search(r"Invariant (\S+) is violated", txt)
    if m: r.violated = m.group(1)
    if simulate:
        m = re.search(r"(\d+) states checked", txt)
        if m: r.generated = r.distinct = int(m.group(1))
    for m in re.finditer(r"<(\w+) line \d+, col \d+ to line \d+, col \d+ of module (\w+)>: (\d+):(\d+)", txt):
        r.coverage[m.group(1)] = (int(m.group(3)), int(m.group(4)))
    r.log = txt
    ok = (r.exit == 0) or (expect_violation and r.exit == 12)
    if not ok and not (simulate and r.exit == -9):
        if not quiet:
            sys.stderr.write("[tlc] %s/%s failed (exit %s):\n%s\n" % (module, cfg, r.exit, txt[-3000:]))
        raise SetupError("TLC %s %s exit %s" % (module, cfg, r.exit))
    return r
