"""The repository's own world files as opaque worlds: tests/gwb-dat/<name>.wb with the query points of <name>.dat."""
import glob, os, re
from lib import build


def parse_dat(path):
    dim, nc, conv = 3, 0, False
    rows = []
    for line in open(path):
        t = [x.replace(",", "") for x in line.split()]
        if not t: continue
        if t[0] == "#":
            if len(t) >= 4 and t[1] == "dim" and t[2] == "=": dim = int(t[3])
            if len(t) >= 4 and t[1] == "compositions" and t[2] == "=": nc = int(t[3])
            if len(t) >= 5 and t[1:4] == ["convert", "spherical", "="] and t[4] == "true": conv = True
            continue
        if t[0].startswith("#"): continue
        try: rows.append([float(x) for x in t])
        except ValueError: continue
    pts = []
    for r in rows:
        if len(r) != dim + 1 or dim not in (2, 3): continue
        if dim == 2: pts.append({"p": [r[0], r[1]], "depth": r[2], "dim": 2})
        elif conv: pts.append({"sph": [r[0], r[1], r[2]], "depth": r[3], "dim": 3})
        else: pts.append({"p": [r[0], r[1], r[2]], "depth": r[3], "dim": 3})
    return {"dim": dim, "compositions": nc, "points": pts}


def repo_worlds(max_points=40, allow_random=False):
    out = []
    for wb in sorted(glob.glob(os.path.join(build.REPO, "tests/gwb-dat/*.wb"))):
        dat = wb[:-3] + ".dat"
        if not os.path.exists(dat): continue
        txt = open(wb).read()
        if not allow_random and re.search(r'"model"\s*:\s*"random', txt): continue
        d = parse_dat(dat)
        if not d["points"]: continue
        pts = d["points"]
        if len(pts) > max_points:
            step = len(pts) / float(max_points)
            pts = [pts[int(i * step)] for i in range(max_points)]
        nc = max(1, min(d["compositions"], 4))
        lists = [[[1, 0, 0]], [[1, 0, 0], [5, 0, 0]] + [[2, c, 0] for c in range(nc)] + [[4, 0, 0]], [[3, 0, 2], [5, 0, 0], [2, 0, 0], [1, 0, 0]]]
        out.append({"path": wb, "rel": os.path.relpath(wb, build.REPO), "points": pts, "lists": lists, "dim": d["dim"]})
    return out
