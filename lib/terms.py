"""Python mirror of the harness' generic term evaluator (harness/common.h), used when the driver itself has to
write a spec-rendered document to disk (tool runs: gwb-dat, gwb-grid)."""
import math, json

_BIN = {"add": lambda a, b: a + b, "sub": lambda a, b: a - b, "mul": lambda a, b: a * b, "div": lambda a, b: a / b,
        "min": min, "max": max, "pow": math.pow, "atan2": math.atan2}
_UN = {"neg": lambda a: -a, "abs": abs, "sqrt": math.sqrt, "exp": math.exp, "log": math.log, "erfc": math.erfc, "erf": math.erf,
       "tanh": math.tanh, "sin": math.sin, "cos": math.cos, "tan": math.tan, "acos": math.acos, "asin": math.asin,
       "deg2rad": lambda a: a * (math.pi / 180.0), "rad2deg": lambda a: a * (180.0 / math.pi), "num": lambda a: a}


def is_num_obj(v):
    return isinstance(v, dict) and (set(v) == {"dec"} or set(v) == {"rat"} or ("op" in v and isinstance(v["op"], str)))


def ev(v):
    if isinstance(v, bool): return 1.0 if v else 0.0
    if isinstance(v, (int, float)): return v
    if set(v) == {"dec"}: return float("%dE%d" % (v["dec"][0], v["dec"][1]))
    if set(v) == {"rat"}: return ev(v["rat"][0]) / ev(v["rat"][1])
    op = v["op"]
    if op == "pi": return math.pi
    if op in _BIN: return _BIN[op](ev(v["a"]), ev(v["b"]))
    if op in _UN: return _UN[op](ev(v["a"]))
    raise ValueError("unknown term op " + op)


def normalise(v):
    if is_num_obj(v): return ev(v)
    if isinstance(v, dict): return {k: normalise(x) for k, x in v.items()}
    if isinstance(v, list): return [normalise(x) for x in v]
    return v


def fmt_g(x):
    """what `std::cout << double` prints with default precision (%g, 6 significant digits)"""
    s = "%g" % x
    return s
