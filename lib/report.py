"""Verdict, known-findings protocol and evidence files (DESIGN.md 4.5, 4.6)."""
import json, os, sys, time, hashlib

VERIF = os.path.dirname(os.path.dirname(os.path.abspath(__file__)))
FINDINGS = os.path.join(VERIF, "known_findings.jsonl")


def load_findings(prop):
    out = []
    if os.path.exists(FINDINGS):
        for line in open(FINDINGS):
            line = line.strip()
            if not line.startswith("{"): continue
            f = json.loads(line)
            if f.get("property") == prop: out.append(f)
    return out


def _match(key, m):
    for k, v in key.items():
        if k == "label":
            if v not in (m.get("labels") or []): return False
        elif k == "labels_all":
            if not all(x in (m.get("labels") or []) for x in v): return False
        elif k == "msg_contains":
            if v not in (m.get("msg") or ""): return False
        elif k == "id_contains":
            if v not in json.dumps(m.get("id")): return False
        else:
            if str(m.get(k)) != str(v): return False
    return True


class Check:
    def __init__(self, prop, level, tier=None, seed=None):
        self.prop = prop; self.level = level
        self.tier = tier or os.environ.get("VERIF_TIER") or "quick"
        self.seed = int(seed if seed is not None else os.environ.get("VERIF_SEED", "1"))
        self.t0 = time.time()
        self.coverage = {"states": 0, "transitions": 0, "traces_validated_against_impl": 0, "evaluations": 0,
                         "distinct_nontrivial": 0, "samples": [], "rule": "", "exhaustive": False}
        self.assumptions = []
        self.mismatches = []
        self.globals = []
        self.notes = {}
        self.setup_errors = []

    # --- accumulation helpers -------------------------------------------------------------
    def add_tlc(self, r, name=None):
        self.coverage["states"] += r.distinct
        self.coverage["transitions"] += r.generated
        self.notes.setdefault("tlc_runs", []).append(
            {"model": name, "distinct_states": r.distinct, "states_generated": r.generated, "depth": r.depth,
             "behaviours_emitted": len(r.behaviours), "wall_s": round(r.wall, 1)})

    def add_replay(self, res, what=None):
        self.coverage["traces_validated_against_impl"] += res.n
        self.coverage["evaluations"] += res.stats.get("queries", 0) + res.stats.get("kernel_calls", 0) + res.stats.get("worlds", 0)
        self.mismatches += res.mismatches
        if getattr(res, "globals", None): self.globals = res.globals
        self.notes.setdefault("replays", []).append({"what": what, "behaviours": res.n, "stats": res.stats,
                                                     "crashes": res.crashes, "wall_s": round(res.wall, 1)})
        if res.harness_errors:
            self.setup_errors += res.harness_errors

    def sample(self, x, limit=4):
        if len(self.coverage["samples"]) < limit:
            if isinstance(x, str):
                try: x = json.loads(x)
                except ValueError: pass
            s = json.dumps(x)
            self.coverage["samples"].append(x if len(s) < 3000 else s[:3000] + "...")

    # --- verdict -----------------------------------------------------------------------------
    def finish(self):
        findings = load_findings(self.prop)
        known, new = {}, []
        for m in self.mismatches:
            hit = None
            for f in findings:
                if f.get("status") == "open" and _match(f.get("key", {}), m):
                    hit = f; break
            if hit is not None: known.setdefault(hit["what"], []).append(m)
            else: new.append(m)
        for what, ms in known.items():
            print("KNOWN-FINDING: property=%s %s (%d occurrences in this run)" % (self.prop, what, len(ms)))
        rdir = os.path.join(VERIF, "evidence", "replays"); os.makedirs(rdir, exist_ok=True)
        classes = {}
        for m in new:
            cls = (tuple(m.get("labels") or []), m.get("check"), m.get("op"))
            classes.setdefault(cls, []).append(m)
        shown = 0
        for cls, ms in classes.items():
            m = ms[0]
            h = hashlib.sha1((json.dumps(m.get("id")) + str(m.get("index")) + m.get("check", "")).encode()).hexdigest()[:10]
            path = os.path.join(rdir, "%s_%s.ndjson" % (self.prop, h))
            with open(path, "w") as f:
                for g in self.globals: f.write(g + "\n")
                for cb in m.get("context") or []: f.write(cb + "\n")       # the behaviours that built the decoy worlds
                b = m.get("behaviour")
                if b is not None: f.write((b if isinstance(b, str) else json.dumps(b)) + "\n")
            with open(path + ".why", "w") as f:
                f.write(json.dumps({k: v for k, v in m.items() if k not in ("behaviour", "context")}) + "\n")
            if shown < 12:
                print("VIOLATION property=%s replay=%s" % (self.prop, path))
                print("  class labels=%s check=%s op=%s step=%s at=%s got=%s want=%s (%d mismatches in this class)\n  %s"
                      % (list(cls[0]), cls[1], cls[2], m.get("step"), m.get("at"), m.get("got"), m.get("want"), len(ms), (m.get("msg") or "")[:300]))
                shown += 1
        if len(classes) > shown:
            print("  ... and %d more violation classes" % (len(classes) - shown))
        cov = dict(self.coverage)
        if not cov["samples"]: cov["samples"] = ["(no sample recorded)"]
        cov["mismatches_known"] = sum(len(v) for v in known.values())
        cov["mismatches_new"] = len(new)
        cov.update(self.notes)
        ev = {"property_id": self.prop, "tier": self.tier if self.tier in ("quick", "thorough") else "quick",
              "seed": self.seed, "level": self.level, "coverage": cov, "assumptions": self.assumptions,
              "wall_s": round(time.time() - self.t0, 2), "violations": len(classes)}
        os.makedirs(os.path.join(VERIF, "evidence"), exist_ok=True)
        with open(os.path.join(VERIF, "evidence", self.prop + ".json"), "w") as f:
            json.dump(ev, f, indent=1)
        if self.setup_errors:
            for e in self.setup_errors[:5]: sys.stderr.write("SETUP ERROR: %s\n" % e)
            return 2
        print("%s %s: %s  (states=%d, behaviours replayed=%d, evaluations=%d, known=%d, new=%d, %.1fs)"
              % (self.prop, self.tier, "VIOLATED" if new else "holds on everything explored", cov["states"],
                 cov["traces_validated_against_impl"], cov["evaluations"], cov["mismatches_known"], len(new), time.time() - self.t0))
        return 1 if new else 0
