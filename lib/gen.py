"""Behaviours of the world-file grammar spec/Gen.tla (simulation walks), by oracle kind: finite | purity | culling."""
from lib import tlc


def behaviours(c, tier, kind):
    quick = tier != "thorough"
    out = []
    for mf, num in (((3, 12),) if quick else ((1, 60), (3, 300), (5, 150))):
        r = tlc.run("Gen.tla", "Gen_sim%d.cfg" % mf, workers=8, timeout=1800, simulate=num, depth=80, seed=c.seed + mf, heap="12g")
        c.add_tlc(r, "world-file grammar, simulated documents with up to %d features" % mf)
        out += [b for b in dict.fromkeys(r.behaviours) if ('"' + kind + '"') in b[:400]]
    if len(out) < 20:
        raise tlc.SetupError("Gen.tla emitted only %d %s behaviours" % (len(out), kind))
    return out


def jobs(c, tier, n):
    """Thread jobs (C14) of the first n simulated documents."""
    r = tlc.run("Gen.tla", "Gen_sim3.cfg", workers=8, timeout=1800, simulate=max(2, n // 6), depth=80, seed=c.seed + 77, heap="12g")
    c.add_tlc(r, "world-file grammar: documents as thread jobs")
    js = list(dict.fromkeys(r.records.get("J", [])))
    if len(js) < min(n, 5):
        raise tlc.SetupError("Gen.tla emitted only %d thread jobs" % len(js))
    return js[:n]
