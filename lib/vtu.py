"""Reader for the VTU files vtu11 writes (ASCII and RawBinary appended)."""
import re, struct

_DT = {"Float64": ("d", 8), "Int64": ("q", 8), "Int8": ("b", 1), "UInt64": ("Q", 8), "Float32": ("f", 4), "Int32": ("i", 4)}


def read(path):
    raw = open(path, "rb").read()
    k = raw.find(b"<AppendedData")
    head = (raw if k < 0 else raw[:k]).decode("latin1")
    out = {"point_data": {}, "ncomp": {}}
    m = re.search(r'NumberOfCells="(\d+)" NumberOfPoints="(\d+)"', head)
    out["ncells"], out["npoints"] = int(m.group(1)), int(m.group(2))
    blob = None
    if k >= 0:
        us = raw.find(b"_", raw.find(b">", k))
        blob = raw[us + 1:]
    section = None
    for m in re.finditer(r"<(PointData|Points|Cells)>|<DataArray([^>]*?)(/>|>([^<]*)</DataArray>)", head):
        if m.group(1):
            section = m.group(1); continue
        attrs = dict(re.findall(r'(\w+)="([^"]*)"', m.group(2)))
        fmt, size = _DT[attrs["type"]]
        if attrs.get("format") == "appended":
            off = int(attrs["offset"])
            nbytes = struct.unpack_from("<Q", blob, off)[0]
            vals = list(struct.unpack_from("<%d%s" % (nbytes // size, fmt), blob, off + 8))
        else:
            toks = (m.group(4) or "").split()
            vals = [float(t) for t in toks] if attrs["type"].startswith("Float") else [int(t) for t in toks]
        name = attrs.get("Name")
        if section == "PointData":
            out["point_data"][name] = vals
            out["ncomp"][name] = int(attrs.get("NumberOfComponents", "1"))
        elif section == "Points":
            out["points"] = vals
        elif section == "Cells":
            out[name] = vals
    return out
