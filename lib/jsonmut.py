"""Generic JSON re-serialiser for byte-level damage and formatting variants (knows nothing about GWB).
Input: "F" records of spec/Parse.tla: {"name", "wb", "probes", "props"}.  Output: harness behaviours."""
import json
from lib import terms


def _ser(v, indent, reverse, comments, depth=0, counter=None):
    pad = "\n" + " " * (indent * (depth + 1)) if indent else ""
    end = "\n" + " " * (indent * depth) if indent else ""
    if isinstance(v, dict):
        items = list(v.items())
        if reverse: items.reverse()
        parts = []
        for k, x in items:
            cm = ""
            if comments:
                counter[0] += 1
                if counter[0] % comments == 0: cm = " // c%d\n" % counter[0] if counter[0] % 2 else " /* c%d */ " % counter[0]
            parts.append(pad + json.dumps(k) + ":" + (" " if indent else "") + cm + _ser(x, indent, reverse, comments, depth + 1, counter))
        return "{" + ",".join(parts) + end + "}"
    if isinstance(v, list):
        return "[" + ",".join(pad + _ser(x, indent, reverse, comments, depth + 1, counter) for x in v) + end + "]"
    return json.dumps(v)


def variants(frecords, quick):
    out = []
    for rec in frecords:
        j = json.loads(rec)
        doc = terms.normalise(j["wb"])
        base = json.dumps(doc)
        queries = [dict(pt, op="q", dim=3, props=j["props"]) for pt in j["probes"]]
        def same(text, name):
            steps = [{"op": "create", "h": 1, "wb": base}, {"op": "create", "h": 2, "wb": text, "expect": "ok"}]
            for i, q in enumerate(queries):
                steps.append(dict(q, h=1, save="b%d" % i))
                steps.append(dict(q, h=2, expect=[{"k": "bits", "ref": "b%d" % i, "at": 0}]))
            return json.dumps({"id": ["format", j["name"], name], "labels": ["format-variant", name], "steps": steps})
        for (indent, reverse, comments) in ((0, True, 0), (2, False, 0), (4, True, 3), (1, False, 2), (0, False, 5)):
            out.append(same(_ser(doc, indent, reverse, comments, 0, [0]), "indent%d-rev%d-comments%d" % (indent, reverse, comments)))
        n = len(base)
        step = max(1, n // (60 if quick else 600))
        for k in range(1, n, step):
            out.append(json.dumps({"id": ["bytes", j["name"], "truncate", k], "labels": ["byte-level", "truncate"],
                                   "steps": [{"op": "create", "h": 1, "wb": base[:k], "expect": "throw"}]}))
            for ch in '{}[],:"':
                if base[k] == ch: continue
                txt = base[:k] + ch + base[k + 1:]
                out.append(json.dumps({"id": ["bytes", j["name"], "replace", k, ch], "labels": ["byte-level", "replace"],
                                       "steps": [{"op": "create", "h": 1, "wb": txt, "expect": "any"}] + [dict(q, h=1, may_throw=True) for q in queries[:1]]}))
    return out
