"""Build the GWB library, tools and harness binaries from /repo's *current working tree*.

Nothing from /repo/_build is used.  Objects are cached per translation unit under
/verif/.cache/obj keyed on (flags, all headers, the TU's sources), so an edit of one .cc file
rebuilds one chunk; binaries are cached under /verif/.cache/bin keyed on their objects.
"""
import hashlib, os, subprocess, sys, glob, fcntl, shutil, time
from concurrent.futures import ThreadPoolExecutor

VERIF = os.path.dirname(os.path.dirname(os.path.abspath(__file__)))
REPO = os.environ.get("VERIF_REPO", "/repo")
CACHE = os.path.join(VERIF, ".cache")
GUARD = "GWB_VERIF"

FLAVOURS = {
    # what users and the suite run: NDEBUG (several properties are about checks that vanish here)
    "rel":  ["-O2", "-DNDEBUG"],
    "san":  ["-O1", "-g", "-DNDEBUG", "-fsanitize=address,undefined", "-fno-sanitize-recover=all",
             "-fno-omit-frame-pointer"],
    "tsan": ["-O1", "-g", "-DNDEBUG", "-fsanitize=thread"],
    "dbg":  ["-O1"],   # WBAssert active
}
NCHUNK = 14


def _h(*parts):
    m = hashlib.sha256()
    for p in parts:
        m.update(p if isinstance(p, bytes) else str(p).encode())
        m.update(b"\0")
    return m.hexdigest()[:24]


def _filehash(paths):
    m = hashlib.sha256()
    for p in sorted(paths):
        m.update(p.encode()); m.update(b"\0")
        with open(p, "rb") as f:
            m.update(f.read())
        m.update(b"\0")
    return m.hexdigest()


def _run(cmd, **kw):
    r = subprocess.run(cmd, stdout=subprocess.PIPE, stderr=subprocess.STDOUT, text=True, **kw)
    if r.returncode != 0:
        sys.stderr.write("BUILD FAILED: %s\n%s\n" % (" ".join(cmd), r.stdout[-6000:]))
        raise SystemExit(2)
    return r.stdout


def _config_h(incdir):
    ver = open(os.path.join(REPO, "VERSION")).read().strip()
    num, _, label = ver.partition("-")
    major, minor, patch = (num.split(".") + ["0", "0"])[:3]
    s = open(os.path.join(REPO, "include/world_builder/config.h.in")).read()
    for k, v in {"WORLD_BUILDER_VERSION_MAJOR": major, "WORLD_BUILDER_VERSION_MINOR": minor,
                 "WORLD_BUILDER_VERSION_PATCH": patch, "WORLD_BUILDER_VERSION_LABEL": label,
                 "GIT_SHA1": "verif", "GIT_BRANCH": "verif", "GIT_DATE": "none",
                 "GIT_COMMIT_SUBJECT": "none", "WORLD_BUILDER_SOURCE_DIR": REPO}.items():
        s = s.replace("@%s@" % k, v)
    d = os.path.join(incdir, "world_builder")
    os.makedirs(d, exist_ok=True)
    p = os.path.join(d, "config.h")
    if not os.path.exists(p) or open(p).read() != s:
        open(p, "w").write(s)


def build(flavour="rel", targets=("replay",), verbose=True, hooks=True):
    """Returns dict target -> path of binary.  targets: harness/<name>.cc, 'gwb-dat', 'gwb-grid'."""
    os.makedirs(CACHE, exist_ok=True)
    lock = open(os.path.join(CACHE, "build.lock"), "w")
    fcntl.flock(lock, fcntl.LOCK_EX)
    try:
        return _build(flavour, targets, verbose, hooks)
    finally:
        fcntl.flock(lock, fcntl.LOCK_UN)


def _build(flavour, targets, verbose, hooks):
    t0 = time.time()
    flags = ["-std=c++14"] + FLAVOURS[flavour] + (["-D" + GUARD] if hooks else [])
    incdir = os.path.join(CACHE, "inc")
    _config_h(incdir)
    inc = ["-I" + os.path.join(REPO, "include"), "-I" + incdir]
    headers = [p for p in glob.glob(os.path.join(REPO, "include/**/*"), recursive=True) if os.path.isfile(p)]
    headers += [os.path.join(incdir, "world_builder/config.h")]
    hh = _filehash(headers)
    srcs = sorted(glob.glob(os.path.join(REPO, "source/world_builder/**/*.cc"), recursive=True))
    big = [s for s in srcs if s.endswith(("/parameters.cc", "/world_builder/point.cc"))]
    rest = [s for s in srcs if s not in big]
    chunks = [[b] for b in big] + [rest[i::NCHUNK] for i in range(NCHUNK)]
    objdir = os.path.join(CACHE, "obj"); os.makedirs(objdir, exist_ok=True)
    bindir = os.path.join(CACHE, "bin"); os.makedirs(bindir, exist_ok=True)
    jobs = []

    def tu(files, extra=(), tag="lib", deps=()):
        key = _h(tag, flags, extra, hh, _filehash(list(files) + list(deps)))
        obj = os.path.join(objdir, key + ".o")
        if not os.path.exists(obj):
            if len(files) == 1:
                src = files[0]
            else:
                src = os.path.join(objdir, key + ".cc")
                with open(src, "w") as f:
                    for s in files:
                        f.write('#include "%s"\n' % s)
            jobs.append(["c++"] + flags + list(extra) + inc + ["-c", src, "-o", obj + ".tmp%d" % os.getpid()])
        return obj

    libobjs = [tu(c) for c in chunks if c]
    tobjs = {}
    for t in targets:
        if t in ("gwb-dat", "gwb-grid"):
            tobjs[t] = [tu([os.path.join(REPO, "source", t, "main.cc")], tag=t)]
        else:
            src = os.path.join(VERIF, "harness", t + ".cc")
            extra = ["-I" + os.path.join(VERIF, "harness"), "-DVERIF_REPO=\"%s\"" % REPO,
                     "-DGWB_GRID_MAIN=\"%s\"" % os.path.join(REPO, "source/gwb-grid/main.cc")]
            deps = sorted(glob.glob(os.path.join(VERIF, "harness", "*.h")) + glob.glob(os.path.join(VERIF, "harness", "*.inc")))
            if t == "pooltrace":
                deps.append(os.path.join(REPO, "source/gwb-grid/main.cc"))
            tobjs[t] = [tu([src], extra=extra, tag=t, deps=deps)]
    if jobs and verbose:
        sys.stderr.write("[build] %s: compiling %d translation units\n" % (flavour, len(jobs)))
    with ThreadPoolExecutor(max_workers=16) as ex:
        list(ex.map(_run, jobs))
    for j in jobs:
        tmp = j[-1]
        os.replace(tmp, tmp[:tmp.index(".tmp")])
    out = {}
    for t, objs in tobjs.items():
        key = _h(t, flags, [os.path.basename(o) for o in objs + libobjs])
        exe = os.path.join(bindir, "%s-%s-%s" % (t, flavour, key))
        if not os.path.exists(exe):
            _run(["c++"] + flags + objs + libobjs + ["-o", exe + ".tmp", "-lpthread"])
            os.replace(exe + ".tmp", exe)
        out[t] = exe
    _prune(objdir, 6000); _prune(bindir, 300)
    if verbose and jobs:
        sys.stderr.write("[build] %s done in %.1fs\n" % (flavour, time.time() - t0))
    return out


def _prune(d, keep):
    fs = sorted((os.path.join(d, f) for f in os.listdir(d)), key=os.path.getmtime)
    for f in fs[:-keep] if len(fs) > keep else []:
        try: os.remove(f)
        except OSError: pass


if __name__ == "__main__":
    fl = sys.argv[1] if len(sys.argv) > 1 else "rel"
    print(build(fl, tuple(sys.argv[2:]) or ("gwb-dat", "gwb-grid")))
