"""Shard behaviours over harness processes, restart after crashes/time-outs, collect mismatches."""
import json, os, shutil, subprocess, sys, tempfile, time
from concurrent.futures import ThreadPoolExecutor

VERIF = os.path.dirname(os.path.dirname(os.path.abspath(__file__)))


class ReplayResult:
    def __init__(self):
        self.mismatches = []; self.stats = {}; self.crashes = 0; self.wall = 0.0; self.n = 0
        self.harness_errors = []

    def add_stats(self, s):
        for k, v in s.items():
            if isinstance(v, dict):
                d = self.stats.setdefault(k, {})
                for kk, vv in v.items(): d[kk] = d.get(kk, 0) + vv
            else:
                self.stats[k] = self.stats.get(k, 0) + v


def _is_global(b):
    if not isinstance(b, str): return b.get("global")
    # the key order of TLC's ToJson is not fixed: look at the whole line (no world document has a key "global")
    return '"global":true' in b or '"global": true' in b


def _run_shard(exe, path, tmp, timeout_s, env, per_shard_timeout, dump=False, extra=()):
    """Returns (mismatch records, stats, crash records, harness errors, saved values)."""
    mism, stats, crashes, herr, saves = [], None, [], [], []
    start = 0
    t_end = time.time() + per_shard_timeout
    while True:
        cmd = [exe, path, "--from", str(start), "--tmp", tmp, "--timeout", str(timeout_s)] + (["--dump", "1"] if dump else []) + list(extra)
        try:
            p = subprocess.run(cmd, stdout=subprocess.PIPE, stderr=subprocess.PIPE, text=True, env=env,
                               timeout=max(5, t_end - time.time()))
            out, err, rc = p.stdout, p.stderr, p.returncode
        except subprocess.TimeoutExpired as ex:
            out = ex.stdout.decode() if isinstance(ex.stdout, bytes) else (ex.stdout or "")
            err, rc = "shard time limit", -99
        last = -1
        st = None
        for line in out.splitlines():
            if line.startswith("@ "): last = int(line[2:])
            elif line.startswith("V "):
                f = line.split(" ")
                saves.append((last, f[1], [float(x) for x in f[2:]]))
            elif line.startswith("M "): mism.append(json.loads(line[2:]))
            elif line.startswith("S "): st = json.loads(line[2:])
            elif line.startswith("H "): herr.append(json.loads(line[2:]))
        if rc == 0 and st is not None:
            stats = st if stats is None else {k: (stats.get(k, 0) + v if not isinstance(v, dict) else v) for k, v in st.items()}
            break
        if rc == 5 or rc == 2 or rc == -99:
            if rc == -99: herr.append("shard %s exceeded its time limit at behaviour %d" % (path, last))
            break
        # crash, sanitizer abort, terminate or per-behaviour time-out at behaviour `last`
        kind = {3: "timeout", 4: "terminate"}.get(rc, "crash")
        crashes.append({"index": last, "check": kind, "rc": rc, "msg": (err or "")[-1500:]})
        start = last + 1
        if last < 0: break
    return mism, stats, crashes, herr, saves


def pick(b, n, seed=1):
    """deterministic 1-in-n sample by a hash of the behaviour (a stride would select one value of an alternating dimension only)"""
    import zlib
    return n <= 1 or zlib.crc32(b.encode() if isinstance(b, str) else repr(b).encode()) % n == seed % n


INTERFERE = 4      # decoy worlds kept alive in every second harness process (environment steps, see harness/replay.cc)
CONTEXT = 6        # behaviours before a failing one that are written into its replay file (they build the decoys)


def replay(exe, behaviours, shards=16, timeout_s=20, env=None, per_shard_timeout=3000, keep=None, dump=False, extra=(), interfere=True):
    """behaviours: list of JSON strings (or dicts).  Global behaviours are prepended to every shard."""
    t0 = time.time()
    res = ReplayResult()
    lines = [b if isinstance(b, str) else json.dumps(b) for b in behaviours]
    glob = [b for b in lines if _is_global(b)]
    rest = [b for b in lines if not _is_global(b)]
    res.n = len(rest)
    shards = max(1, min(shards, len(rest)))
    tmp = tempfile.mkdtemp(prefix="replay_", dir=os.path.join(VERIF, ".cache"))
    e = dict(os.environ)
    e.setdefault("ASAN_OPTIONS", "detect_leaks=0:abort_on_error=0:exitcode=66")
    e.setdefault("UBSAN_OPTIONS", "print_stacktrace=1:halt_on_error=1:exitcode=67")
    e.setdefault("TSAN_OPTIONS", "exitcode=68:halt_on_error=1")
    if env: e.update(env)
    try:
        parts = [rest[i::shards] for i in range(shards)]
        paths = []
        for i, part in enumerate(parts):
            pth = os.path.join(tmp, "shard%d.ndjson" % i)
            with open(pth, "w") as f:
                for b in glob + part: f.write(b + "\n")
            paths.append(pth)
        with ThreadPoolExecutor(max_workers=shards) as ex:
            def xtra(i): return list(extra) + (["--interfere", str(INTERFERE)] if interfere and i % 2 == 1 else [])
            outs = list(ex.map(lambda ip: _run_shard(exe, ip[1], tmp, timeout_s, e, per_shard_timeout, dump, xtra(ip[0])), list(enumerate(paths))))
        res.saves = {}
        for i, (mism, stats, crashes, herr, saves) in enumerate(outs):
            part = glob + parts[i]
            for (idx, name, vals) in saves:
                if 0 <= idx < len(part): res.saves.setdefault(part[idx], {})[name] = vals
            for m in mism:
                m["behaviour"] = part[m["index"]]
                if interfere and i % 2 == 1:       # found with environment queries: keep the behaviours that built the decoys
                    m["env"] = INTERFERE
                    m["context"] = part[max(len(glob), m["index"] - CONTEXT):m["index"]]
                res.mismatches.append(m)
            for c in crashes:
                b = part[c["index"]] if 0 <= c["index"] < len(part) else "{}"
                try: jb = json.loads(b)
                except ValueError: jb = {}
                res.mismatches.append({"id": jb.get("id"), "labels": jb.get("labels", []), "index": c["index"], "step": -1,
                                       "op": "", "check": c["check"], "at": -1, "got": "rc=%s" % c["rc"], "want": "",
                                       "msg": c["msg"], "behaviour": b})
                res.crashes += 1
            if stats: res.add_stats(stats)
            res.harness_errors += herr
        res.globals = glob
    finally:
        if keep: shutil.copytree(tmp, keep, dirs_exist_ok=True)
        shutil.rmtree(tmp, ignore_errors=True)
    res.wall = time.time() - t0
    return res
