#!/usr/bin/env python3
"""Regenerates /verif/MANIFEST.json from the table below (one place to edit)."""
import json, os
VERIF = os.path.dirname(os.path.dirname(os.path.abspath(__file__)))

NOTE = "bounded exploration: TLC is exhaustive within the stated constants; the verdict comes from replaying TLC-generated behaviours into (or validating traces of) the real code built from /repo's working tree with -O2 -DNDEBUG"

CHECKS = {
 "C01": ("model_checking",
         "TLC checks exhaustively that the transcribed offset mechanisms (3D evaluator, 2D wrapper) equal the specified layout for every property list up to the bound and explores every life-cycle history up to the bound; every list and history it visits is replayed against the real library and each block compared bitwise with a stand-alone reference.",
         "property lists over an 8-element alphabet (quick: length <= 3, thorough: <= 5), six spec-rendered worlds (with a composition that depends on the finished world's temperature), 8 probes, 2D and 3D; the repository's own worlds as opaque files; simulated documents of the world-file grammar Gen.tla (twin bitwise, block vs stand-alone, reversed list); every second harness process with environment queries on decoy worlds; " + NOTE,
         "TLA+/TLC model checking of layout + life-cycle spec (C01.tla); replay of TLC-generated behaviours into the real code, bitwise comparison"),
 "C02": ("model_checking",
         "TLC enumerates every feature stack from the catalogue of Paint.tla, proves the oracle's own locality / permutation / last-covering-tag theorems on each, and each stack is rendered, built and queried in the real library with exact comparison against the specified fold. Additionally every document of the world-file grammar Gen.tla (<= 3 features of any type, depth surfaces, every deterministic model) is built with all its sub-documents: the sub-document of the features that contain a point must answer bit for bit like the full document, with the tag of the last of them.",
         "stacks of <= 2 features exhaustively (thorough: full catalogue at both positions plus simulated stacks of 3-4); uniform models in the stacks, lists of two models of a kind, and every kind of composition model over a painted base for the unlisted labels; " + NOTE,
         "TLA+/TLC model checking of the paint-fold spec (Paint.tla) and the world-file grammar (Gen.tla, subset oracle); replay with exact expected values"),
 "C03": ("model_checking",
         "TLC checks that the transcribed fill / early-return / fold / re-imposition mechanism refines the specified background and forced-surface rule for every configuration, and every configuration (thermal constants x gravity x coordinate system x forced x feature set) is replayed at five depths with five property lists; additionally the outside probe of every Paint.tla stack, and for the documents of the world-file grammar Gen.tla every lattice point no feature contains must be answered like the document without features.",
         "constants from small sets; every history of 4 / 6 queries against three live worlds with different constants; " + NOTE,
         "TLA+/TLC (Background.tla, Paint.tla, Gen.tla subset oracle) + replay with evaluated closed-form terms"),
 "C04": ("model_checking",
         "TLC builds every simple polygon with up to MaxV vertices on the lattice and checks, for every probe of the doubled lattice, that the transcribed winding-number code equals the definitional closed-polygon predicate; each polygon is replayed as the footprint of the three area-feature types with exact (integer-metre) boundary probes and depth-interval probes. Plume tables: TLC decides interval, fraction and cyclic-angle branch exactly and emits the ellipse function as a term the harness evaluates.",
         "4x4 lattice, 3-4 vertices quick / 5 thorough, Cartesian and spherical (also across / beyond the +-180 meridian); plume tables of 1-2 sections (3 simulated), spherical ones also shifted across / beyond the meridian; local depth intervals given at points; membership within 1e-6 of a curved boundary not asserted; " + NOTE,
         "TLA+/TLC (Extent.tla Mech=Prop, Plume.tla) + replay of every polygon / table"),
 "C05": ("exploration",
         "Exploration with a model-derived oracle: Models.tla states each documented closed form as a symbolic term, TLC enumerates model x feature type x sentinel pattern x relation of the model's depth range to the feature's x operation and resolves every discrete branch exactly (which sentinel means 'adiabatic / global', which bounds are the local top and bottom, inside or outside the model's own range); the real library is queried and compared with the term evaluated by a generic evaluator (1e-9 relative; 1e-8 for the 100-term series).",
         "TLC decides the case analysis, not the arithmetic; 398 cases in 12 families; mass conserving and slab plate-model temperatures have no documented closed form and are not claimed; the tian2019 parameterisation is transcribed and replayed (192 cases) but, not being in the property's list, reported as information only; " + NOTE,
         "TLA+ case enumeration with symbolic closed-form terms (Models.tla) + replay with numeric comparison"),
 "C06": ("model_checking",
         "Slab.tla constructs the slab / fault surface of a straight trench in the perpendicular plane with Pythagorean dips, so that for every lattice point TLC decides exactly which segment carries the foot, the signed distance from and the distance along the surface, and membership (thickness and top truncation varying linearly along each segment); every world x point is replayed against World::distance_to_plane (1e-6 relative + 1 m) and against membership (composition and tag), leaving out only points where an inequality is tight or the nearest segment is ambiguous.",
         "1-3 segments (reduced sets for the second and third), 5 dips incl. vertical and overturned, 3 trench directions, both dip sides, min depth 0 / 100 km, thickness / truncation pairs, a collinear middle coordinate, slabs and faults; arcs by construct-then-query; Cartesian only; " + NOTE,
         "TLA+/TLC exact planar construction (Slab.tla) + replay of distances and membership"),
 "C07": ("model_checking",
         "For straight trenches TLC checks on the exact planar construction that no member is discarded by the transcribed pre-filter (depth cut-off measured from the min depth, bounding box extended by length + thickness) -- the pre-fix cut-off is kept as a switch and yields the counterexample; for all families (straight, curved, spherical up to 80 degrees latitude, dateline-crossing, variable depth surfaces) every query is answered twice in one process, with the shortcuts as built and neutralised through the GWB_VERIF hook, and must agree bitwise.",
         "differential replay needs the hook (bounds inflated at parse time); grids of 5-6 thousand points per world; quick runs a third of the straight and half of the curved worlds; depth surfaces with their extreme at any list position; simulated documents of Gen.tla; " + NOTE,
         "TLA+/TLC Mech|=Prop for the culling arithmetic (Slab.tla) + differential replay with the hook (Culling.tla)"),
 "C08": ("model_checking",
         "Motion.tla writes one world against a frame: every coordinate-bearing entry is produced by the single operator XYf(frame, x, y) (plus the plume azimuth), so applying a motion is re-rendering against another frame and no entry can be forgotten; frames use rational rotations (90, 180 degrees, 3-4-5, 5-12-13) with translations up to 1e7 m, and longitude offsets that carry features across the +-180 meridian; TLC checks the exact group structure on the lattice; base and moved worlds are built and compared at p and g.p (metamorphic replay, tolerance 1e-6).",
         "one rich world, 17 Cartesian frames and 8 longitude offsets, 18 interior probes; trench-shape and ridge-shape families on dense lattices; simulated documents of Gen.tla written against a second frame; the code-side comparison is metamorphic (code vs code); " + NOTE,
         "TLA+/TLC frame algebra (Motion.tla) + metamorphic replay base vs moved world"),
 "C09": ("model_checking",
         "TLC maps every 2D probe exactly onto the section (rational arithmetic on Pythagorean directions), checks that the probes stay away from straight feature boundaries, and every section x position x depth x property list is replayed: the 2D reply must equal the 3D reply at the mapped point block by block, velocities as the specified projection, and a world without cross section must refuse.",
         "60 sections (origins x 6 directions x Cartesian/spherical x forced surface temperature), 45 property lists, 11 single-property entry points, refusal of all 17 2D entry points; simulated documents of Gen.tla with 4 cross sections; tolerance 1e-9 because the code's own mapping rounds; " + NOTE,
         "TLA+/TLC (CrossSection.tla) + replay comparing 2D and 3D replies"),
 "C10": ("model_checking",
         "Sections.tla specifies which models a segment resolves to (segment, else section, else feature) for every placement of temperature and composition models over three trench coordinates, and the two re-layouts the statement names; TLC enumerates all placements (and checks the oracle's own locality); each placement is replayed: as-written, explicit and repeated layouts must answer bit-identically, values lie between the two neighbouring coordinates' resolved values and equal a coordinate's own value at the coordinate, and removing one coordinate's entry leaves answers strictly beyond its neighbours bit-identical. Additionally every document of the world-file grammar Gen.tla that contains a slab or fault is rewritten into its explicit form (a section entry per coordinate, every segment carrying the lists it inherits) and must answer bit-identically on the whole lattice.",
         "2 x 10^3 placements of temperature / composition models (quick: every second), 48 placements of grains / velocity models, section-geometry tables, 9 positions along a three-coordinate trench, uniform models; " + NOTE,
         "TLA+/TLC (Sections.tla resolution oracle; Gen.tla explicit-form oracle) + replay with twin worlds, bitwise"),
 "C11": ("model_checking",
         "Surface.tla specifies the nodal values of a depth surface (last entry naming a coordinate wins, point-less entries name every corner) and transcribes the merge mechanism with its approx-based same-point test; TLC checks that the mechanism yields exactly one node per coordinate with the specified value for every configuration, and each configuration is replayed: the depth actually used is observed 1 m above / below the predicted depth at every nodal point and inside the polygon (exact for affine data, min/max bounds otherwise).",
         "3 polygons x listed-corner subsets x 0-2 interior points x affine/bumped x entry order x later point-less entry x area type x min/max/both, plus model-level surfaces and spherical worlds on one polygon (about 5 thousand configurations); " + NOTE,
         "TLA+/TLC (Surface.tla Mech|=Prop) + replay observing the switching depth of a composition"),
 "C12": ("model_checking",
         "Parse.tla applies every mutation of a catalogue (and, thorough, every pair) to valid base documents inside the specification, classifies each as must-reject / builds-or-throws / formatting-only, and records for each rejection whether the transcribed pipeline stops it with an always-on or a debug-only check (Mech |= Prop in a release build); every document, plus byte-level damage and formatting variants from a generic re-serialiser, is constructed and probed in the real library under AddressSanitizer and UndefinedBehaviorSanitizer.",
         "about 280 mutations x 2 base documents (+ pairs), about 900 byte-level / formatting documents; arbitrary byte strings that are not mutations of a valid document are not explored; uninitialised reads only as far as UBSan and their effects show them; " + NOTE.replace("-O2 -DNDEBUG", "-O1 -DNDEBUG + ASan/UBSan"),
         "TLA+/TLC (Parse.tla mutation catalogue, pipeline Mech) + replay under ASan/UBSan"),
 "C13": ("exploration",
         "Model-directed exploration: Degenerate.tla derives the degenerate locations of a configuration (polygon vertices and edges, trench line and ends, slab tip, fault line, plume axis, ridge points, depth-surface nodes, kinks, poles, the +-180 meridian, the centre, z = -depth frames, odd depths) and TLC enumerates world kind x location; each is queried in the real library under ASan + UBSan and every returned value must be finite unless a std::exception is thrown.",
         "the decision that an execution had no undefined behaviour is the sanitizers'; the specification directs where to look; degenerate locations of one rich configuration in three renderings, 26 degenerate worlds, worlds borrowed from 11 other specifications and simulated documents of Gen.tla; " + NOTE.replace("-O2 -DNDEBUG", "-O1 -DNDEBUG + ASan/UBSan"),
         "TLA+ enumeration of degenerate locations (Degenerate.tla) + replay under ASan/UBSan with finiteness oracle"),
 "C14": ("model_checking",
         "TLC explores every interleaving of the transcribed parallel_for (no result slot written twice, at most T workers, termination under fairness, launches equal their sequential meaning), proves the slice partition for all n, T in the bound, and checks concurrent readers; executions of the REAL ThreadPool are recorded and validated by TLC as behaviours of the specification (trace validation, Prop level: any partition is accepted); real threads replay query streams against one world bitwise vs single-thread and under ThreadSanitizer; real gwb-grid outputs are byte-compared for -j 1..40.",
         "interleavings exhaustively only in the model (n <= 6/7, T <= 3/4); real schedules sampled; kitchen-sink worlds, the repository's worlds and documents of Gen.tla, without random models; " + NOTE,
         "TLA+/TLC (Pool.tla, Concurrent.tla) + trace validation of the real ThreadPool (PoolTrace.tla) + TSan + byte comparison"),
 "C15": ("model_checking",
         "Rng.tla models a world's engine position (doubles drawn) with the draw count of every query; TLC explores every query history up to the bound for every (feature type, random model, seed) and each history is replayed on three real worlds: seed through the constructor, the same seed through the file, another seed. After every query the twin replies are bitwise equal, the third differs, both engines equal a shadow mt19937 at seed + 2*pos words (binding the draw count), and orientations / sizes / compositions are valid.",
         "histories of 2 (quick) / 3 + simulated 30 (thorough) queries over an 8-query alphabet, 44 worlds (type x model x label order x basis orientation), 3-4 seeds incl. 0; " + NOTE,
         "TLA+/TLC (Rng.tla draw-count model) + replay on twin worlds with a shadow mt19937"),
 "C16": ("model_checking",
         "The refinement mapping from C / wrapper actions to World actions is stated in CApi.tla and checked by TLC on all argument combinations; every mapped pair of actions is executed side by side in one process and compared bitwise, with the seed observed through random models and the output directory through the files written.",
         "6 seeds incl. 0, 2^31-1 and 2^32+5, null/non-null flag and directory; simulated life-cycle histories on two wrapper handles; documents of Gen.tla through create_world; " + NOTE,
         "TLA+/TLC refinement mapping (CApi.tla) + side-by-side replay, bitwise"),
 "C17": ("model_checking",
         "Dat.tla states, for every option-line configuration, the header and which slot of the library's reply belongs under each column name (Prop) next to the printer's transcribed index arithmetic (Mech); TLC checks Mech = Prop (the code's deviations are explicit switches). The real gwb-dat is run on every configuration, its stdout is validated by TLC as a trace against Dat.tla (DatTrace.tla) and every cell is compared with the library's in-process reply.",
         "about 1300 configurations (options x separator x option-line layout x number format), 7 rows each, one kitchen-sink world per coordinate mode; 12 malformed-row files; " + NOTE,
         "TLA+/TLC (Dat.tla Mech=Prop) + trace validation of the real tool's output (DatTrace.tla) + cell comparison"),
 "C18": ("model_checking",
         "Grid.tla states what a well-formed mesh of each structured grid type is (nodes = the full lattice index box, cells = exactly its unit cells in VTK order with the right types and offsets, Depth index, the filter rule) independently of any node numbering; the real gwb-grid is run on every configuration TLC enumerates, each mesh it writes (main, filtered, per tag) is replayed to TLC as a trace and judged by those predicates, and every stored node value is compared bitwise with the library's in-process reply at the stored position and depth.",
         "cell counts 1..2 (quick) / 1..3 (thorough) per direction, shell and full sphere, --resolution-limit, RawBinary and (Cartesian) ASCII, one kitchen-sink world per coordinate mode, sphere grids by invariants only; " + NOTE,
         "TLA+/TLC (Grid.tla) + trace validation of the real tool's VTU output (GridTrace.tla) + bitwise node-value comparison"),
 "C19": ("model_checking",
         "TLC checks the transcribed kd-tree search against the minimum-distance definition for every point set, every arrangement the median split may leave and every query; the transcribed polygon code against the closed-polygon definition for every simple polygon; the great-circle mechanism (clamp included) against R*acos on the 26-direction configuration where dot products are integers. Every enumerated input is then passed to the real kernels. Bezier closest points and the coordinate round trip are compared numerically with brute force (exploration-strength for those two).",
         "4x4 lattices, <= 4/5 points at four lattice units, polygons <= 4/5 vertices, polylines <= 4 points with bends <= 60 degrees (near and far query points), 54 zig-zag trenches on a 20 km query grid; " + NOTE,
         "TLA+/TLC Mech|=Prop for kd-tree, polygon, great circle (Kernels.tla, Extent.tla) + direct kernel replay; brute-force comparison for Bezier / round trip"),
 "C20": ("exploration",
         "Model-directed exploration: Envelope.tla states the envelope, monotonicity and boundary-value predicates and TLC enumerates the cases (oceanic cooling models x ridge geometries x velocities / ages x constant or laterally varying plate thickness; mass-conserving and plate-model slabs x dips x velocities x plate ages) and lays out vertical, horizontal and cross-slab probe lines; the harness checks the inequalities on the library's replies (slack 1e-9 relative).",
         "TLC does not evaluate the inequalities; 138 cases (Cartesian and spherical plates, long and nascent slabs), about 430 thousand probe points; slab ambient = background adiabat; " + NOTE,
         "TLA+ case and probe-line enumeration (Envelope.tla) + replay with envelope / monotonicity oracles"),
}

NOT_APPLICABLE = {}

PENDING = ["C04", "C05", "C06", "C07", "C08", "C09", "C10", "C11", "C12", "C13", "C14", "C15", "C16", "C17", "C18", "C19", "C20"]


def main():
    checks = []
    for pid, (level, text, note, tech) in sorted(CHECKS.items()):
        checks.append({
            "property_id": pid,
            "quick_cmd": "bin/check %s quick" % pid,
            "thorough_cmd": "bin/check %s thorough" % pid,
            "evidence_file": "/verif/evidence/%s.json" % pid,
            "replay_cmd_template": "bin/check --replay {path}",
            "engine": "tlc+replay",
            "level_claimed": {"category": level, "text": text, "design_ref": "DESIGN.md section 5, " + pid},
            "level_note": note,
            "technique": tech})
    na = [{"property_id": p, "reason": r} for p, r in sorted(NOT_APPLICABLE.items())]
    na += [{"property_id": p, "reason": "check not built yet (work in progress; the design in DESIGN.md section 5 applies)"} for p in PENDING if p not in CHECKS and p not in NOT_APPLICABLE]
    m = {
        "version": 1,
        "setup_cmd": "python3 /verif/lib/build.py rel replay gwb-dat gwb-grid",
        "hooks": {
            "guard": "GWB_VERIF",
            "enable": "checks compile /repo's working tree themselves (lib/build.py) with -DGWB_VERIF; nothing from /repo/_build is used",
            "baseline_off_cmd": "cmake --build /repo/_build && ctest --test-dir /repo/_build -j8 --timeout 900",
            "source_commits": ["982d780b"],
            "add_only": True},
        "engines": [
            {"name": "tlc+replay", "path": "/verif/spec", "serves_properties": sorted(CHECKS),
             "kind_free_text": "explicit TLA+ specifications (Prop/Mech layers) model-checked by TLC, which also generates the behaviours; "
                               "harness/replay.cc steps them through the real World / C API / wrappers / kernels; trace specs validate recorded executions"}],
        "checks": checks,
        "not_applicable": na,
        "notes": "bin/check <id> <tier>; known findings in /verif/known_findings.jsonl; design in /verif/DESIGN.md"}
    with open(os.path.join(VERIF, "MANIFEST.json"), "w") as f:
        json.dump(m, f, indent=1)
    print("wrote MANIFEST.json with %d checks, %d not_applicable" % (len(checks), len(na)))


if __name__ == "__main__":
    main()
