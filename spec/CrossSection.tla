---------------------------- MODULE CrossSection ----------------------------
(***************************************************************************)
(* C09 -- the 2D interface equals the 3D interface along the cross section *)
(*                                                                         *)
(* Prop (Cartesian): a 2D query at (x, z) is the 3D query at               *)
(*        o + x * u, height z      u = (c1 - c0) / |c1 - c0|               *)
(*      and a velocity (vx, vy, vz) comes back as (v . u, vz, 0).          *)
(* Prop (spherical): a 2D query at (x, z) is the 3D query at radius        *)
(*        sqrt(x^2 + z^2) and angle a = atan2(z, x) from c0 towards c1:    *)
(*        (lon, lat) = c0 + a * u   (u the unit direction in lon/lat).     *)
(* A 2D query on a world without cross section is refused.                 *)
(*                                                                         *)
(* Directions are Pythagorean so u is rational and TLC maps every probe    *)
(* exactly; the mapped point is kept >= 1 km away from every straight      *)
(* feature boundary (invariant ProbesOffBoundaries) so rounding of the     *)
(* code's own mapping cannot flip a membership.                            *)
(***************************************************************************)
EXTENDS KS, Json, SequencesExt

(* direction d with |d| = n, an integer *)
Dirs == {<<1, 0, 1>>, <<-1, 0, 1>>, <<0, 1, 1>>, <<3, 4, 5>>, <<-4, 3, 5>>, <<12, -5, 13>>}
DirUnit(d) == d[1] * d[1] + d[2] * d[2] = d[3] * d[3]

CartOrigins == {<<13, 257>>, <<120, 55>>, <<903, 911>>}            \* km
CartXs      == {-100, 0, 100, 255, 500, 755}                      \* km along the section
SphOrigins  == {<<13, 257>>, <<120, 55>>}                          \* in 1/100 degree
SphAngles   == {0, 100, 250, 500, 755}                             \* in 1/100 degree along the section
DepthsKm    == {0, 20, 50, 130}

Sections == [sph : {FALSE}, o : CartOrigins, d : Dirs, force : BOOLEAN] \cup [sph : {TRUE}, o : SphOrigins, d : Dirs, force : BOOLEAN]

(* The 2D interface is a family of entry points, not one function: the batched evaluator, the single-property
   conveniences of World (temperature with and without the deprecated gravity argument, composition, grains), and
   the C and C++ wrappers around them.  Handle 1 is the native World, 2 the C API, 3 the C++ wrapper class. *)
EntryPoints == << [h |-> 1, via |-> "temperature",   props |-> <<PT>>],
                  [h |-> 1, via |-> "temperature_g", props |-> <<PT>>],
                  [h |-> 1, via |-> "composition",   props |-> <<PC(0)>>],
                  [h |-> 1, via |-> "composition",   props |-> <<PC(5)>>],
                  [h |-> 1, via |-> "grains",        props |-> <<PG(0, 2)>>],
                  [h |-> 2, via |-> "props",         props |-> <<PT, PC(1), PTag>>],
                  [h |-> 2, via |-> "temperature",   props |-> <<PT>>],
                  [h |-> 2, via |-> "composition",   props |-> <<PC(5)>>],
                  [h |-> 3, via |-> "temperature",   props |-> <<PT>>],
                  [h |-> 3, via |-> "temperature_g", props |-> <<PT>>],
                  [h |-> 3, via |-> "composition",   props |-> <<PC(0)>>] >>
Apis == <<"native", "c", "cpp">>

(* exact mapped surface position, as rationals: Cartesian in metres, spherical in degrees *)
MapX(s, x) == IF s.sph THEN Rat(s.o[1] * s.d[3] + x * s.d[1], 100 * s.d[3])
                       ELSE Rat((s.o[1] * s.d[3] + x * s.d[1]) * Km, s.d[3])
MapY(s, x) == IF s.sph THEN Rat(s.o[2] * s.d[3] + x * s.d[2], 100 * s.d[3])
                       ELSE Rat((s.o[2] * s.d[3] + x * s.d[2]) * Km, s.d[3])

(* straight boundaries of the kitchen-sink features, in km (or 1/100 degree): polygon edges,
   fault faces (x = 300 +- 25), trench lines *)
XLines == {0, 275, 300, 325, 500, 700, 1000}
YLines == {-100, 0, 500, 600, 1000}
Along(s) == IF s.sph THEN SphAngles ELSE CartXs
(* |num/den - line| >= 1 km  <=>  |num - line*den| >= den *)
FarFrom(num, den, line) == LET diff == num - line * den IN (IF diff < 0 THEN -diff ELSE diff) >= den
ProbesOffBoundaries(s) ==
  \A x \in Along(s) :
     /\ \A l \in XLines : FarFrom(s.o[1] * s.d[3] + x * s.d[1], s.d[3], l)
     /\ \A l \in YLines : FarFrom(s.o[2] * s.d[3] + x * s.d[2], s.d[3], l)

Doc(s) == World(IF s.sph THEN Spherical("begin segment") ELSE Cartesian, KSFeatures(s.sph))
          @@ Opt(s.force, ("force surface temperature" :> TRUE) @@ ("surface temperature" :> 293))
          @@ ("cross section" :> IF s.sph
                THEN << <<Rat(s.o[1], 100), Rat(s.o[2], 100)>>, <<Rat(s.o[1] + 100 * s.d[1], 100), Rat(s.o[2] + 100 * s.d[2], 100)>> >>
                ELSE << <<s.o[1] * Km, s.o[2] * Km>>, <<(s.o[1] + 100 * s.d[1]) * Km, (s.o[2] + 100 * s.d[2]) * Km>> >>)
DocNoSection(force) == World(Cartesian, KSFeatures(FALSE)) @@ Opt(force, ("force surface temperature" :> TRUE) @@ ("surface temperature" :> 293))

Singles == <<PT, PC(0), PC(5), PG(0, 2), PTag, PV>>
Lists == {<<Singles[i]>> : i \in 1..6} \cup {<<Singles[i], Singles[j]>> : i, j \in 1..6}
         \cup {<<PG(0, 2), PV, PT>>, <<PV, PTag, PV>>, <<PC(2), PG(1, 3), PV, PC(5)>>}

(* expectation for block i of a 2D reply, relative to the saved 3D reply "m" *)
BlockExpect(s, props, i) ==
  LET off == Offset(props, i) IN
  IF props[i][1] = 5 THEN
     IF s.sph THEN <<>>        \* the statement speaks about Cartesian velocities only
     ELSE <<[k |-> "lin", at |-> off, ref |-> "m", refat |-> off,
             m |-> << <<Rat(s.d[1], s.d[3]), Rat(s.d[2], s.d[3]), 0>>, <<0, 0, 1>>, <<0, 0, 0>> >>,
             rel |-> Dec(1, -12), abs |-> Dec(1, -12)]>>
  ELSE <<[k |-> "near", at |-> off, n |-> Size(props[i]), ref |-> "m", refat |-> off, rel |-> Dec(1, -9), abs |-> Dec(1, -9)]>>

RECURSIVE AllBlocks(_, _, _)
AllBlocks(s, props, i) == IF i > Len(props) THEN <<>> ELSE BlockExpect(s, props, i) \o AllBlocks(s, props, i + 1)

Pair(s, x, dk, props) ==
  LET d == dk * Km IN
  << (IF s.sph THEN [sph |-> <<R - d, MapX(s, x), MapY(s, x)>>] ELSE [p |-> <<MapX(s, x), MapY(s, x), H - d>>])
       @@ [op |-> "q", h |-> 1, dim |-> 3, depth |-> d, props |-> props, save |-> "m"],
     [op |-> "q", h |-> 1, dim |-> 2, depth |-> d, props |-> props,
      p |-> IF s.sph THEN <<Mul(R - d, Cos(Rad(Rat(x, 100)))), Mul(R - d, Sin(Rad(Rat(x, 100))))>> ELSE <<x * Km, H - d>>,
      expect |-> <<[k |-> "len", n |-> Total(props)], [k |-> "size"]>> \o AllBlocks(s, props, 1)] >>

(* the same pair through one of the single-property entry points *)
ViaPair(s, x, dk, e) ==
  LET d == dk * Km IN
  << (IF s.sph THEN [sph |-> <<R - d, MapX(s, x), MapY(s, x)>>] ELSE [p |-> <<MapX(s, x), MapY(s, x), H - d>>])
       @@ [op |-> "q", h |-> e.h, via |-> e.via, dim |-> 3, depth |-> d, props |-> e.props, save |-> "m"],
     [op |-> "q", h |-> e.h, via |-> e.via, dim |-> 2, depth |-> d, props |-> e.props,
      p |-> IF s.sph THEN <<Mul(R - d, Cos(Rad(Rat(x, 100)))), Mul(R - d, Sin(Rad(Rat(x, 100))))>> ELSE <<x * Km, H - d>>,
      expect |-> <<[k |-> "len", n |-> Total(e.props)],
                   [k |-> "near", at |-> 0, n |-> Total(e.props), ref |-> "m", refat |-> 0, rel |-> Dec(1, -9), abs |-> Dec(1, -9)]>>] >>

Behaviour(s) ==
  LET qs == SetToSeq(Along(s) \X DepthsKm \X Lists)
      es == SetToSeq(Along(s) \X DepthsKm \X (1..Len(EntryPoints))) IN
  [id |-> <<"section", s>>, labels |-> <<"section", IF s.sph THEN "spherical" ELSE "cartesian", IF s.force THEN "forced" ELSE "unforced">>,
   steps |-> [a \in 1..3 |-> [op |-> "create", h |-> a, api |-> Apis[a], wb |-> Doc(s)]]
             \o FlattenSeq([i \in 1..Len(qs) |-> Pair(s, qs[i][1], qs[i][2], qs[i][3])])
             \o FlattenSeq([i \in 1..Len(es) |-> ViaPair(s, es[i][1], es[i][2], EntryPoints[es[i][3]])])]

(* without a cross section every 2D entry point refuses, whatever the depth and the surface-temperature setting *)
Refusal(force) ==
  LET ds == <<0, 50 * Km>> IN
  [id |-> <<"no-section", force>>, labels |-> <<"refusal", IF force THEN "forced" ELSE "unforced">>,
   steps |-> [a \in 1..3 |-> [op |-> "create", h |-> a, api |-> Apis[a], wb |-> DocNoSection(force)]]
             \o FlattenSeq([k \in 1..2 |->
                   [i \in 1..6 |-> [op |-> "q", h |-> 1, dim |-> 2, depth |-> ds[k], props |-> <<Singles[i]>>,
                                    p |-> <<100 * Km, H - ds[k]>>, expect |-> <<[k |-> "throws"]>>]]
                   \o [i \in 1..Len(EntryPoints) |->
                         [op |-> "q", h |-> EntryPoints[i].h, via |-> EntryPoints[i].via, dim |-> 2, depth |-> ds[k],
                          props |-> EntryPoints[i].props, p |-> <<100 * Km, H - ds[k]>>, expect |-> <<[k |-> "throws"]>>]]])]

VARIABLE sec
Init == sec \in Sections
Next == UNCHANGED sec
SpecOK == DirUnit(sec.d) /\ ProbesOffBoundaries(sec)
Emit == PrintT(<<"B", ToJson(Behaviour(sec))>>)
EmitRefusal == PrintT(<<"B", ToJson(Refusal(sec.force))>>)
=============================================================================
