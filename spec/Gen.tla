-------------------------------- MODULE Gen --------------------------------
(***************************************************************************)
(* A grammar of world files as a state machine.                            *)
(*                                                                         *)
(* The hand-written configurations of the other modules (the kitchen sink, *)
(* the model families, the trench shapes ...) each vary what their own     *)
(* property talks about.  Several properties, however, have an oracle that *)
(* needs no knowledge of the world at all:                                 *)
(*   C01  batched = stand-alone, any order; a twin built from the same     *)
(*        file answers bit for bit the same                                *)
(*   C07  the world with its acceleration shortcuts neutralised answers    *)
(*        bit for bit the same                                             *)
(*   C13  every answer is finite (or a refusal), no undefined behaviour    *)
(*   C16  the same file built through the C interface answers the same     *)
(* For those the specification should range over "all valid world files".  *)
(* This module describes that set constructively: a document is built one  *)
(* small decision per action --                                            *)
(*   Start(type, geometry)  Depths  AddT  AddC  AddG  AddV  Close  Finish  *)
(* -- from catalogues that hold every feature type, several geometries per *)
(* type (rectangles, a pentagon, a concave polygon; straight, bent and     *)
(* S-shaped trenches; one to three segments with constant and varying dip, *)
(* thickness pairs, top truncation; plumes with several sections), constant *)
(* and laterally varying depth ranges, and every deterministic model of    *)
(* every kind with its operation.  TLC's simulation mode walks the machine *)
(* (each walk is one document); Finish emits the document together with    *)
(* the behaviours that apply the generic oracles to it on a lattice of     *)
(* probes that covers all geometries, surface, shallow and deep.           *)
(*                                                                         *)
(* Every reachable document is schema-valid by construction.  A document   *)
(* the constructor nevertheless refuses is counted, not reported: no       *)
(* listed property says which valid-looking combinations must build.       *)
(***************************************************************************)
EXTENDS Wb, Json, SequencesExt

CONSTANTS MaxFeatures        \* most features of a document

VARIABLES sph,      \* spherical coordinate system?
          glob,     \* index into Globals
          feats,    \* the features closed so far
          cur,      \* the feature under construction, or <<>>
          stage,    \* what the feature under construction still lacks
          done
vars == <<sph, glob, feats, cur, stage, done>>

(* horizontal unit: km in a Cartesian world, 1/100 degree on the sphere *)
U(s, km) == IF s THEN Rat(km, 100) ELSE km * Km
XYg(s, p) == <<U(s, p[1]), U(s, p[2])>>
Pts(s, ps) == [i \in 1..Len(ps) |-> XYg(s, ps[i])]

Types == <<"continental plate", "oceanic plate", "mantle layer", "plume", "subducting plate", "fault">>
IsArea(t) == t \in {"continental plate", "oceanic plate", "mantle layer"}
IsLine(t) == t \in {"subducting plate", "fault"}

(*************************** geometry catalogues (km) ***********************)
Polys == << << <<0, 0>>, <<800, 0>>, <<800, 600>>, <<0, 600>> >>,
            << <<300, 200>>, <<1200, 300>>, <<1100, 900>>, <<600, 1000>>, <<200, 700>> >>,
            << <<500, -200>>, <<1500, -200>>, <<1500, 800>>, <<1000, 300>>, <<500, 800>> >>,       \* concave
            << <<900, 500>>, <<1300, 500>>, <<1100, 900>> >>,
            << <<-300, -300>>, <<1600, -300>>, <<1600, 1300>>, <<-300, 1300>> >> >>                \* covers everything
PolyInside == << <<400, 300>>, <<700, 600>>, <<1200, 100>>, <<1100, 600>>, <<650, 500>> >>       \* a point strictly inside each
Trenches == << << <<400, -300>>, <<400, 1200>> >>,
               << <<200, 0>>, <<600, 500>>, <<500, 1100>> >>,
               << <<1300, 1100>>, <<900, 600>>, <<1200, 100>>, <<800, -200>> >>,
               << <<100, 900>>, <<1400, 700>> >> >>
DipPoints == << <<3000, 400>>, <<-2000, 400>>, <<700, 5000>> >>
SegSets == << <<Segment(300 * Km, <<100 * Km>>, <<0>>, <<45>>)>>,
              <<Segment(200 * Km, <<80 * Km, 120 * Km>>, <<0>>, <<20, 60>>), Segment(300 * Km, <<120 * Km>>, <<0, -30 * Km>>, <<60>>)>>,
              <<Segment(250 * Km, <<60 * Km>>, <<0>>, <<90>>)>>,
              <<Segment(150 * Km, <<100 * Km>>, <<-40 * Km>>, <<30>>), Segment(150 * Km, <<100 * Km>>, <<-40 * Km>>, <<30, 110>>),
                Segment(100 * Km, <<100 * Km, 40 * Km>>, <<-40 * Km, 0>>, <<110>>)>> >>
PlumeGeoms == << [c |-> << <<700, 400>>, <<700, 400>> >>, d |-> <<60 * Km, 400 * Km>>, a |-> <<150, 120>>, e |-> <<0, Dec(5, -1)>>, r |-> <<0, 30>>],
                 [c |-> << <<300, 800>>, <<500, 700>>, <<600, 400>> >>, d |-> <<20 * Km, 200 * Km, 500 * Km>>, a |-> <<80, 200, 120>>,
                  e |-> <<Dec(8, -1), Dec(3, -1), 0>>, r |-> <<350, 10, 170>>] >>

(* depth ranges: <<min, max>>, each a number or AtPoints (a value-at-points surface, built from the polygon) *)
AtPoints == -1
DepthKinds == << <<0, 150 * Km>>, <<30 * Km, 400 * Km>>, <<AtPoints, 250 * Km>>, <<0, AtPoints>>, <<AtPoints, AtPoints>> >>
SurfaceOf(s, g, base, bump, which) ==      \* corners at base, the polygon's first corner and an inside point at base + bump
  << <<base>>, <<base + bump, <<XYg(s, Polys[g][1]), XYg(s, PolyInside[g])>>>> >>

(*************************** model catalogues *******************************)
Ops == <<"replace", "add", "subtract">>
Ridge(s) == << <<XYg(s, <<-200, -500>>), XYg(s, <<100, 1500>>)>> >>
TModels(s, t) ==
     << TUniform(700, "replace"), TUniform(120, "add") >>
  \o (IF t # "plume" THEN << ("model" :> "adiabatic"),
                             ("model" :> "adiabatic") @@ ("operation" :> "subtract") @@ ("potential mantle temperature" :> 1500) >>
      ELSE <<>>)
  \o (IF IsArea(t) THEN << ("model" :> "linear") @@ ("max depth" :> 500 * Km) @@ ("top temperature" :> 300) @@ ("bottom temperature" :> -1),
                          ("model" :> "linear") @@ ("min depth" :> 10 * Km) @@ ("max depth" :> 200 * Km) @@ ("top temperature" :> -1) @@ ("bottom temperature" :> 1700) @@ ("operation" :> "add") >>
      ELSE <<>>)
  \o (IF t = "continental plate"
      THEN << ("model" :> "chapman") @@ ("top temperature" :> 293) @@ ("top heat flux" :> Dec(55, -3)) @@ ("thermal conductivity" :> Dec(25, -1))
              @@ ("heat generation per unit volume" :> Dec(1, -6)) >> ELSE <<>>)
  \o (IF t = "oceanic plate"
      THEN << ("model" :> "half space model") @@ ("max depth" :> 130 * Km) @@ ("spreading velocity" :> Dec(4, -2)) @@ ("ridge coordinates" :> Ridge(s)) @@ ("top temperature" :> 280) @@ ("bottom temperature" :> -1),
              ("model" :> "plate model") @@ ("max depth" :> 110 * Km) @@ ("spreading velocity" :> << <<0, <<<<Dec(2, -2), Dec(6, -2)>>>>>> >>) @@ ("ridge coordinates" :> Ridge(s))
              @@ ("top temperature" :> 280) @@ ("bottom temperature" :> 1600),
              ("model" :> "plate model constant age") @@ ("max depth" :> 90 * Km) @@ ("plate age" :> 60000000) @@ ("top temperature" :> 280) @@ ("bottom temperature" :> 1500) >>
      ELSE <<>>)
  \o (IF t = "plume"
      THEN << ("model" :> "gaussian") @@ ("centerline temperatures" :> <<1900, -1>>) @@ ("gaussian sigmas" :> <<Dec(3, -1), Dec(6, -1)>>) @@ ("depths" :> <<50 * Km, 450 * Km>>) >>
      ELSE <<>>)
  \o (IF t = "subducting plate"
      THEN << ("model" :> "linear") @@ ("min distance slab top" :> -20 * Km) @@ ("max distance slab top" :> 90 * Km) @@ ("top temperature" :> 400) @@ ("bottom temperature" :> -1),
              ("model" :> "plate model") @@ ("density" :> 3300) @@ ("plate velocity" :> Dec(4, -2)) @@ ("thermal conductivity" :> Dec(25, -1)) @@ ("adiabatic heating" :> TRUE),
                 ("model" :> "mass conserving") @@ ("density" :> 3300) @@ ("thermal conductivity" :> Dec(33, -1)) @@ ("adiabatic heating" :> TRUE)
              @@ ("spreading velocity" :> Dec(5, -2)) @@ ("subducting velocity" :> Dec(3, -2)) @@ ("ridge coordinates" :> << <<XYg(s, <<-3000, -1000>>), XYg(s, <<-3000, 2500>>)>> >>)
              @@ ("coupling depth" :> 80 * Km) @@ ("forearc cooling factor" :> 10) @@ ("taper distance" :> 50 * Km)
              @@ ("min distance slab top" :> -150 * Km) @@ ("max distance slab top" :> 200 * Km) >>
      ELSE <<>>)
  \o (IF t = "fault"
      THEN << ("model" :> "linear") @@ ("min distance fault center" :> 0) @@ ("max distance fault center" :> 50 * Km) @@ ("center temperature" :> 900) @@ ("side temperature" :> -1) >>
      ELSE <<>>)
CModels(s, t) ==
     << CUniform(<<0>>, "replace"), CUniformF(<<1, 3>>, <<Dec(25, -2), Dec(5, -1)>>, "add"), CUniform(<<2>>, "subtract"),
        ("model" :> "uniform") @@ ("compositions" :> <<3, 0>>) @@ ("fractions" :> <<Dec(7, -1), Dec(3, -1)>>) @@ ("operation" :> "replace defined only") >>
  \o (IF t = "subducting plate"
      THEN << ("model" :> "smooth") @@ ("compositions" :> <<4>>) @@ ("min distance slab top" :> 0) @@ ("max distance slab top" :> 80 * Km)
              @@ ("top fractions" :> <<Dec(8, -1)>>) @@ ("bottom fractions" :> <<Dec(2, -1)>>),
              ("model" :> "tian water content") @@ ("compositions" :> <<5>>) @@ ("lithology" :> "gabbro") @@ ("initial water content" :> 1) @@ ("cutoff pressure" :> 26) >>
      ELSE <<>>)
  \o (IF t = "fault"
      THEN << ("model" :> "smooth") @@ ("compositions" :> <<4>>) @@ ("min distance fault center" :> 0) @@ ("side distance fault center" :> 40 * Km)
              @@ ("center fractions" :> <<1>>) @@ ("side fractions" :> <<Dec(25, -2)>>) >>
      ELSE <<>>)
  \o (IF t = "oceanic plate"
      THEN << ("model" :> "tian water content") @@ ("compositions" :> <<5>>) @@ ("lithology" :> "peridotite") @@ ("initial water content" :> 2) @@ ("cutoff pressure" :> 10) >>
      ELSE <<>>)
GModels(s, t) ==
  << GUniform(<<0, 1>>, <<Mat(1), Mat(10)>>, <<Dec(3, -1), -1>>),
     ("model" :> "uniform") @@ ("compositions" :> <<2>>) @@ ("Euler angles z-x-z" :> <<<<10, 20, 30>>>>) @@ ("grain sizes" :> <<Dec(5, -1)>>) @@ ("orientation operation" :> "replace") >>
VModels(s, t) == << VUniform(<<1, -2, 3>>) >>

Globals == << <<>>,
              ("potential mantle temperature" :> 1450) @@ ("thermal expansion coefficient" :> Dec(2, -5)) @@ ("specific heat" :> 1100) @@ ("thermal diffusivity" :> Dec(8, -7)),
              ("force surface temperature" :> TRUE) @@ ("surface temperature" :> 285) @@ ("gravity model" :> (("model" :> "uniform") @@ ("magnitude" :> Dec(981, -2))))
              @@ ("maximum distance between coordinates" :> 0) >>

(*************************** the machine ************************************)
Init == sph \in BOOLEAN /\ glob \in 1..Len(Globals) /\ feats = <<>> /\ cur = <<>> /\ stage = "none" /\ done = FALSE

Name == "f" \o ToString(Len(feats) + 1)
Base(t, coords) == ("model" :> t) @@ ("name" :> Name) @@ ("coordinates" :> coords)
                   @@ ("temperature models" :> <<>>) @@ ("composition models" :> <<>>) @@ ("grains models" :> <<>>) @@ ("velocity models" :> <<>>)

StartArea(t, g) == /\ IsArea(t) /\ cur' = Base(t, Pts(sph, Polys[g])) @@ ("gen poly" :> g)
StartLine(t, g, dp, sg) == /\ IsLine(t)
                           /\ cur' = Base(t, Pts(sph, Trenches[g])) @@ ("dip point" :> XYg(sph, DipPoints[dp])) @@ ("segments" :> SegSets[sg]) @@ ("gen poly" :> 0)
StartPlume(g) == LET p == PlumeGeoms[g] IN
                 cur' = Base("plume", Pts(sph, p.c)) @@ ("cross section depths" :> p.d) @@ ("semi-major axis" :> [i \in 1..Len(p.a) |-> U(sph, p.a[i])])
                        @@ ("eccentricity" :> p.e) @@ ("rotation angles" :> p.r) @@ ("gen poly" :> 0)
Start == /\ stage = "none" /\ ~done /\ Len(feats) < MaxFeatures
         /\ \/ \E t \in {"continental plate", "oceanic plate", "mantle layer"}, g \in 1..Len(Polys) : StartArea(t, g)
            \/ \E t \in {"subducting plate", "fault"}, g \in 1..Len(Trenches), dp \in 1..Len(DipPoints), sg \in 1..Len(SegSets) : StartLine(t, g, dp, sg)
            \/ \E g \in 1..Len(PlumeGeoms) : StartPlume(g)
         /\ stage' = "depths" /\ UNCHANGED <<sph, glob, feats, done>>

(* depth range: value-at-points surfaces only for area features (they are built from the polygon) *)
Depths == /\ stage = "depths"
          /\ \E k \in 1..Len(DepthKinds) :
               LET dk == DepthKinds[k]  g == cur["gen poly"]
                   lo == IF dk[1] = AtPoints THEN SurfaceOf(sph, g, 20 * Km, 40 * Km, "min") ELSE dk[1]
                   hi == IF dk[2] = AtPoints THEN SurfaceOf(sph, g, 300 * Km, -120 * Km, "max") ELSE dk[2]
               IN /\ (dk[1] = AtPoints \/ dk[2] = AtPoints) => g > 0
                  /\ cur' = [x \in (DOMAIN cur) \ {"gen poly"} |-> cur[x]] @@ ("min depth" :> lo) @@ ("max depth" :> hi)
          /\ stage' = "models" /\ UNCHANGED <<sph, glob, feats, done>>

T == cur["model"]
AddModel(key, cat) == /\ stage = "models" /\ Len(cur[key]) < 2
                      /\ \E k \in 1..Len(cat) : cur' = [cur EXCEPT ![key] = Append(@, cat[k])]
                      /\ UNCHANGED <<sph, glob, feats, stage, done>>
AddT == AddModel("temperature models", TModels(sph, T))
AddC == AddModel("composition models", CModels(sph, T))
AddG == AddModel("grains models", GModels(sph, T))
AddV == AddModel("velocity models", VModels(sph, T))
Close == /\ stage = "models"
         /\ feats' = Append(feats, cur) /\ cur' = <<>> /\ stage' = "none"
         /\ UNCHANGED <<sph, glob, done>>
Finish == /\ stage = "none" /\ Len(feats) >= 1 /\ ~done /\ done' = TRUE /\ UNCHANGED <<sph, glob, feats, cur, stage>>
Next == Start \/ Depths \/ AddT \/ AddC \/ AddG \/ AddV \/ Close \/ Finish

(*************************** the document and the probes ********************)
HM == 1000 * Km
RE == 6371000
Doc == World(IF sph THEN Spherical("begin segment") ELSE Cartesian, feats) @@ Globals[glob]

(* a lattice that covers every geometry of the catalogues, plus every coordinate of the document's own geometry catalogues *)
LatticeKm == {<<-400 + 175 * i, -400 + 185 * j>> : i \in 0..12, j \in 0..10}
             \cup {Polys[g][i] : g \in 1..Len(Polys), i \in 1..3} \cup {Trenches[g][i] : g \in 1..Len(Trenches), i \in 1..2}
             \cup {PolyInside[g] : g \in 1..Len(PolyInside)}
DepthsM == <<0, 5 * Km, 35 * Km, 90 * Km, 150 * Km, 260 * Km, 420 * Km>>
Row(p, d) == IF sph THEN <<RE - d, Rat(p[1], 100), Rat(p[2], 100), d>> ELSE <<p[1] * Km, p[2] * Km, HM - d, d>>
Rows == LET ps == SetToSeq(LatticeKm) IN
        FlattenSeq([k \in 1..Len(ps) |-> [i \in 1..Len(DepthsM) |-> Row(ps[k], DepthsM[i])]])
AllProps == <<PT, PC(0), PC(1), PG(0, 2), PC(3), PTag, PV, PC(4), PC(5), PG(2, 1), PC(2)>>

Shape == [k \in 1..Len(feats) |-> feats[k]["model"]]
Id(kind) == <<"gen", kind, sph, glob, Shape, Len(feats)>>
Labels(kind) == <<"gen", kind, IF sph THEN "spherical" ELSE "cartesian">>
(* C13: every answer finite (the replay runs under the sanitizers and judges only that) *)
FiniteB == [id |-> Id("finite"), labels |-> Labels("finite"),
            steps |-> << [op |-> "create", h |-> 1, wb |-> Doc, expect |-> "any"],
                         [op |-> "qtable", h |-> 1, dim |-> 3, sph |-> sph, props |-> AllProps, may_throw |-> TRUE, rows |-> Rows] >>]
(* C01: a twin built from the same file answers bit for bit the same; every block of a batched reply is the property
   asked alone; the reversed list gives the reversed sequence of blocks *)
PurityB == [id |-> Id("purity"), labels |-> Labels("purity"),
            steps |-> << [op |-> "create", h |-> 1, wb |-> Doc, expect |-> "any"], [op |-> "create", h |-> 2, wb |-> Doc, expect |-> "any"],
                         [op |-> "qtable", h |-> 1, h2 |-> 2, dim |-> 3, sph |-> sph, props |-> AllProps, may_throw |-> TRUE, blocks |-> TRUE, rows |-> Rows] >>]
(* C07: the same document with the acceleration shortcuts neutralised (hook) answers bit for bit the same *)
CullB == [id |-> Id("culling"), labels |-> Labels("culling"),
          steps |-> << [op |-> "create", h |-> 1, wb |-> Doc, expect |-> "any"], [op |-> "create", h |-> 2, wb |-> Doc, expect |-> "any", culling |-> FALSE],
                       [op |-> "qtable", h |-> 1, h2 |-> 2, dim |-> 3, sph |-> sph, props |-> AllProps, may_throw |-> TRUE, rows |-> Rows] >>]

(* C16: the same document built through the C interface answers every batched request bit for bit like the World *)
WrapperB == [id |-> Id("wrapper"), labels |-> Labels("wrapper"),
             steps |-> << [op |-> "create", h |-> 1, wb |-> Doc, expect |-> "any"], [op |-> "create", h |-> 2, api |-> "c", wb |-> Doc, expect |-> "any"],
                          [op |-> "qtable", h |-> 1, h2 |-> 2, dim |-> 3, sph |-> sph, props |-> AllProps, may_throw |-> TRUE, rows |-> Rows],
                          [op |-> "release", h |-> 2] >>]

Emit == ~done \/ (PrintT(<<"B", ToJson(FiniteB)>>) /\ PrintT(<<"B", ToJson(PurityB)>>) /\ PrintT(<<"B", ToJson(CullB)>>) /\ PrintT(<<"B", ToJson(WrapperB)>>))

(* the machine only ever appends well-formed features *)
WellFormed == \A k \in 1..Len(feats) : /\ feats[k]["model"] \in {Types[i] : i \in 1..Len(Types)}
                                       /\ "min depth" \in DOMAIN feats[k] /\ "max depth" \in DOMAIN feats[k]
                                       /\ "gen poly" \notin DOMAIN feats[k]
=============================================================================
