-------------------------------- MODULE Gen --------------------------------
(***************************************************************************)
(* A grammar of world files as a state machine.                            *)
(*                                                                         *)
(* The hand-written configurations of the other modules (the kitchen sink, *)
(* the model families, the trench shapes ...) each vary what their own     *)
(* property talks about.  Several properties, however, have an oracle that *)
(* needs no knowledge of the world at all:                                 *)
(*   C01  batched = stand-alone, any order; a twin built from the same     *)
(*        file answers bit for bit the same                                *)
(*   C07  the world with its acceleration shortcuts neutralised answers    *)
(*        bit for bit the same                                             *)
(*   C08  the document written against a rotated / translated frame (or    *)
(*        shifted in longitude) answers the same at the moved points       *)
(*   C09  along the cross section the 2D interface answers like the 3D one *)
(*   C13  every answer is finite (or a refusal), no undefined behaviour    *)
(*   C14  real threads asking one world get the single-thread answers      *)
(*   C16  the same file built through the C interface answers the same     *)
(* For those the specification should range over "all valid world files".  *)
(* This module describes that set constructively: a document is built one  *)
(* small decision per action (the state holds catalogue indices only; the  *)
(* JSON document is rendered at the end, against any frame) --             *)
(*   Start(type, geometry)  Depths  AddT  AddC  AddG  AddV  Close  Finish  *)
(* -- from catalogues that hold every feature type, several geometries per *)
(* type (rectangles, a pentagon, a concave polygon; straight, bent and     *)
(* S-shaped trenches; one to three segments with constant and varying dip, *)
(* thickness pairs, top truncation; plumes with several sections), constant *)
(* and laterally varying depth ranges, and every deterministic model of    *)
(* every kind with its operation.  TLC's simulation mode walks the machine *)
(* (each walk is one document); Finish emits the document together with    *)
(* the behaviours that apply the generic oracles to it on a lattice of     *)
(* probes that covers all geometries, surface, shallow and deep.           *)
(*                                                                         *)
(* Every reachable document is schema-valid by construction.  A document   *)
(* the constructor nevertheless refuses is counted, not reported: no       *)
(* listed property says which valid-looking combinations must build.       *)
(***************************************************************************)
EXTENDS Wb, Json, SequencesExt

CONSTANTS MaxFeatures        \* most features of a document

VARIABLES dm,       \* index into DepthMethods (spherical worlds): how the dip of a slab segment is referred to the curved surface
          sec,      \* index into Sections: the cross section of the document
          sph,      \* spherical coordinate system?
          glob,     \* index into Globals
          frame,    \* index into Frames(sph): the frame the moved twin of the document is written against
          feats,    \* the features closed so far (abstract: catalogue indices)
          cur,      \* the feature under construction, or <<>>
          stage,    \* what the feature under construction still lacks
          done
vars == <<dm, sec, sph, glob, frame, feats, cur, stage, done>>

(* frames: Cartesian [sph = FALSE, c, s, n (cos = c/n, sin = s/n), tx, ty (km)]; spherical [sph = TRUE, dlon (degrees)] *)
IdF(s) == IF s THEN [sph |-> TRUE, dlon |-> 0] ELSE [sph |-> FALSE, c |-> 1, s |-> 0, n |-> 1, tx |-> 0, ty |-> 0]
Frames(s) == IF s THEN << [sph |-> TRUE, dlon |-> 100], [sph |-> TRUE, dlon |-> 172], [sph |-> TRUE, dlon |-> -184] >>
             ELSE << [sph |-> FALSE, c |-> 3, s |-> 4, n |-> 5, tx |-> 1000, ty |-> -2000], [sph |-> FALSE, c |-> 0, s |-> 1, n |-> 1, tx |-> 0, ty |-> 0],
                     [sph |-> FALSE, c |-> 5, s |-> -12, n |-> 13, tx |-> 0, ty |-> 3000] >>
(* a length, and a point <<x km, y km>>, written against frame f *)
U(f, km) == IF f.sph THEN Rat(km, 100) ELSE km * Km
XYg(f, p) == IF f.sph THEN <<Rat(p[1] + 100 * f.dlon, 100), Rat(p[2], 100)>>
             ELSE <<Rat((f.c * p[1] - f.s * p[2] + f.n * f.tx) * Km, f.n), Rat((f.s * p[1] + f.c * p[2] + f.n * f.ty) * Km, f.n)>>
Pts(f, ps) == [i \in 1..Len(ps) |-> XYg(f, ps[i])]
(* azimuth from north, clockwise: a counter-clockwise rotation of the world by phi lowers it by phi *)
Azimuth(f, a) == IF f.sph \/ (f.c = 1 /\ f.s = 0) THEN a ELSE Sub(a, Un("rad2deg", Bin("atan2", f.s, f.c)))

Types == <<"continental plate", "oceanic plate", "mantle layer", "plume", "subducting plate", "fault">>
IsArea(t) == t \in {"continental plate", "oceanic plate", "mantle layer"}
IsLine(t) == t \in {"subducting plate", "fault"}

(*************************** geometry catalogues (km) ***********************)
Polys == << << <<50, 40>>, <<850, 40>>, <<850, 640>>, <<50, 640>> >>,
            << <<300, 200>>, <<1200, 300>>, <<1100, 900>>, <<600, 1000>>, <<200, 700>> >>,
            << <<500, -200>>, <<1500, -200>>, <<1500, 800>>, <<1000, 300>>, <<500, 800>> >>,       \* concave
            << <<900, 500>>, <<1300, 500>>, <<1100, 900>> >>,
            << <<-300, -300>>, <<1600, -300>>, <<1600, 1300>>, <<-300, 1300>> >> >>                \* covers everything
PolyInside == << <<400, 300>>, <<700, 600>>, <<1200, 100>>, <<1100, 600>>, <<650, 500>> >>       \* a point strictly inside each
Trenches == << << <<400, -300>>, <<400, 1200>> >>,
               << <<200, 0>>, <<600, 500>>, <<500, 1100>> >>,
               << <<1300, 1100>>, <<900, 600>>, <<1200, 100>>, <<800, -200>> >>,
               << <<100, 900>>, <<1400, 700>> >> >>
DipPoints == << <<3000, 400>>, <<-2000, 400>>, <<700, 5000>> >>
SegSets == << <<Segment(300 * Km, <<100 * Km>>, <<0>>, <<45>>)>>,
              <<Segment(200 * Km, <<80 * Km, 120 * Km>>, <<0>>, <<20, 60>>), Segment(300 * Km, <<120 * Km>>, <<0, -30 * Km>>, <<60>>)>>,
              <<Segment(250 * Km, <<60 * Km>>, <<0>>, <<90>>)>>,
              <<Segment(150 * Km, <<100 * Km>>, <<-40 * Km>>, <<30>>), Segment(150 * Km, <<100 * Km>>, <<-40 * Km>>, <<30, 110>>),
                Segment(100 * Km, <<100 * Km, 40 * Km>>, <<-40 * Km, 0>>, <<110>>)>> >>
(* per-coordinate overrides ("sections"): the same number of segments as SegSets[sg], other lengths / dips / thickness *)
AltSegSets == << <<Segment(350 * Km, <<80 * Km>>, <<0>>, <<55>>)>>,
                 <<Segment(250 * Km, <<100 * Km, 100 * Km>>, <<0>>, <<30, 50>>), Segment(250 * Km, <<100 * Km>>, <<0, -10 * Km>>, <<50>>)>>,
                 <<Segment(200 * Km, <<90 * Km>>, <<0>>, <<80>>)>>,
                 <<Segment(100 * Km, <<120 * Km>>, <<-40 * Km>>, <<40>>), Segment(200 * Km, <<120 * Km>>, <<-40 * Km>>, <<40, 100>>),
                   Segment(0, <<120 * Km, 40 * Km>>, <<-40 * Km, 0>>, <<100>>)>> >>                              \* the last one a zero-length placeholder
PlumeGeoms == << [c |-> << <<700, 400>>, <<700, 400>> >>, d |-> <<60 * Km, 400 * Km>>, a |-> <<150, 120>>, e |-> <<0, Dec(5, -1)>>, r |-> <<0, 30>>],
                 [c |-> << <<300, 800>>, <<500, 700>>, <<600, 400>> >>, d |-> <<20 * Km, 200 * Km, 500 * Km>>, a |-> <<80, 200, 120>>,
                  e |-> <<Dec(8, -1), Dec(3, -1), 0>>, r |-> <<350, 10, 170>>] >>

(* depth ranges: <<min, max>>, each a number or AtPoints (a value-at-points surface, built from the polygon) *)
AtPoints == -1
DepthKinds == << <<0, 150 * Km>>, <<30 * Km, 400 * Km>>, <<AtPoints, 250 * Km>>, <<0, AtPoints>>, <<AtPoints, AtPoints>> >>
(* corners at base, the polygon's first corner at `first` (the unique extreme of the surface), its third corner and an
   inside point at base + bump; no listed point has a zero coordinate (known finding of C11) *)
SurfaceOf(s, g, base, bump, first) ==
  << <<base>>, <<first, <<XYg(s, Polys[g][1])>>>>, <<base + bump, <<XYg(s, Polys[g][3]), XYg(s, PolyInside[g])>>>> >>

(*************************** model catalogues *******************************)
Ops == <<"replace", "add", "subtract">>
Ridge(s) == << <<XYg(s, <<-200, -500>>), XYg(s, <<100, 1500>>)>> >>
TModels(s, t) ==
     << TUniform(700, "replace"), TUniform(120, "add") >>
  \o (IF t # "plume" THEN << ("model" :> "adiabatic"),
                             ("model" :> "adiabatic") @@ ("operation" :> "subtract") @@ ("potential mantle temperature" :> 1500) >>
      ELSE <<>>)
  \o (IF IsArea(t) THEN << ("model" :> "linear") @@ ("max depth" :> 500 * Km) @@ ("top temperature" :> 300) @@ ("bottom temperature" :> -1),
                          ("model" :> "linear") @@ ("min depth" :> 10 * Km) @@ ("max depth" :> 200 * Km) @@ ("top temperature" :> -1) @@ ("bottom temperature" :> 1700) @@ ("operation" :> "add") >>
      ELSE <<>>)
  \o (IF t = "continental plate"
      THEN << ("model" :> "chapman") @@ ("top temperature" :> 293) @@ ("top heat flux" :> Dec(55, -3)) @@ ("thermal conductivity" :> Dec(25, -1))
              @@ ("heat generation per unit volume" :> Dec(1, -6)) >> ELSE <<>>)
  \o (IF t = "oceanic plate"
      THEN << ("model" :> "half space model") @@ ("max depth" :> 130 * Km) @@ ("spreading velocity" :> Dec(4, -2)) @@ ("ridge coordinates" :> Ridge(s)) @@ ("top temperature" :> 280) @@ ("bottom temperature" :> -1),
              ("model" :> "plate model") @@ ("max depth" :> 110 * Km) @@ ("spreading velocity" :> << <<0, <<<<Dec(2, -2), Dec(6, -2)>>>>>> >>) @@ ("ridge coordinates" :> Ridge(s))
              @@ ("top temperature" :> 280) @@ ("bottom temperature" :> 1600),
              ("model" :> "half space model") @@ ("max depth" :> 100 * Km) @@ ("spreading velocity" :> Dec(3, -2)) @@ ("top temperature" :> 280) @@ ("bottom temperature" :> 1500)
              @@ ("ridge coordinates" :> << <<XYg(s, <<-200, -500>>), XYg(s, <<0, 400>>)>>, <<XYg(s, <<300, 500>>), XYg(s, <<400, 1500>>)>> >>),    \* two pieces, oblique transform
              ("model" :> "plate model constant age") @@ ("max depth" :> 90 * Km) @@ ("plate age" :> 60000000) @@ ("top temperature" :> 280) @@ ("bottom temperature" :> 1500) >>
      ELSE <<>>)
  \o (IF t = "plume"
      THEN << ("model" :> "gaussian") @@ ("centerline temperatures" :> <<1900, -1>>) @@ ("gaussian sigmas" :> <<Dec(3, -1), Dec(6, -1)>>) @@ ("depths" :> <<50 * Km, 450 * Km>>) >>
      ELSE <<>>)
  \o (IF t = "subducting plate"
      THEN << ("model" :> "linear") @@ ("min distance slab top" :> -20 * Km) @@ ("max distance slab top" :> 90 * Km) @@ ("top temperature" :> 400) @@ ("bottom temperature" :> -1),
              ("model" :> "plate model") @@ ("density" :> 3300) @@ ("plate velocity" :> Dec(4, -2)) @@ ("thermal conductivity" :> Dec(25, -1)) @@ ("adiabatic heating" :> TRUE),
                 ("model" :> "mass conserving") @@ ("density" :> 3300) @@ ("thermal conductivity" :> Dec(33, -1)) @@ ("adiabatic heating" :> TRUE)
              @@ ("spreading velocity" :> Dec(5, -2)) @@ ("subducting velocity" :> Dec(3, -2)) @@ ("ridge coordinates" :> << <<XYg(s, <<-3000, -1000>>), XYg(s, <<-3000, 2500>>)>> >>)
              @@ ("coupling depth" :> 80 * Km) @@ ("forearc cooling factor" :> 10) @@ ("taper distance" :> 50 * Km)
              @@ ("min distance slab top" :> -150 * Km) @@ ("max distance slab top" :> 200 * Km) >>
      ELSE <<>>)
  \o (IF t = "fault"
      THEN << ("model" :> "linear") @@ ("min distance fault center" :> 0) @@ ("max distance fault center" :> 50 * Km) @@ ("center temperature" :> 900) @@ ("side temperature" :> -1) >>
      ELSE <<>>)
CModels(s, t) ==
     << CUniform(<<0>>, "replace"), CUniformF(<<1, 3>>, <<Dec(25, -2), Dec(5, -1)>>, "add"), CUniform(<<2>>, "subtract"),
        ("model" :> "uniform") @@ ("compositions" :> <<3, 0>>) @@ ("fractions" :> <<Dec(7, -1), Dec(3, -1)>>) @@ ("operation" :> "replace defined only") >>
  \o (IF t = "subducting plate"
      THEN << ("model" :> "smooth") @@ ("compositions" :> <<4>>) @@ ("min distance slab top" :> 0) @@ ("max distance slab top" :> 80 * Km)
              @@ ("top fractions" :> <<Dec(8, -1)>>) @@ ("bottom fractions" :> <<Dec(2, -1)>>),
              ("model" :> "tian water content") @@ ("compositions" :> <<5>>) @@ ("lithology" :> "gabbro") @@ ("initial water content" :> 1) @@ ("cutoff pressure" :> 26) >>
      ELSE <<>>)
  \o (IF t = "fault"
      THEN << ("model" :> "smooth") @@ ("compositions" :> <<4>>) @@ ("min distance fault center" :> 0) @@ ("side distance fault center" :> 40 * Km)
              @@ ("center fractions" :> <<1>>) @@ ("side fractions" :> <<Dec(25, -2)>>) >>
      ELSE <<>>)
  \o (IF t = "oceanic plate"
      THEN << ("model" :> "tian water content") @@ ("compositions" :> <<5>>) @@ ("lithology" :> "peridotite") @@ ("initial water content" :> 2) @@ ("cutoff pressure" :> 10) >>
      ELSE <<>>)
GModels(s, t) ==
  << GUniform(<<0, 1>>, <<Mat(1), Mat(10)>>, <<Dec(3, -1), -1>>),
     ("model" :> "uniform") @@ ("compositions" :> <<2>>) @@ ("Euler angles z-x-z" :> <<<<10, 20, 30>>>>) @@ ("grain sizes" :> <<Dec(5, -1)>>) @@ ("orientation operation" :> "replace") >>
VModels(s, t) == << VUniform(<<1, -2, 3>>) >>

Globals == << <<>>,
              ("potential mantle temperature" :> 1450) @@ ("thermal expansion coefficient" :> Dec(2, -5)) @@ ("specific heat" :> 1100) @@ ("thermal diffusivity" :> Dec(8, -7)),
              ("force surface temperature" :> TRUE) @@ ("surface temperature" :> 285) @@ ("gravity model" :> (("model" :> "uniform") @@ ("magnitude" :> Dec(981, -2))))
              @@ ("maximum distance between coordinates" :> 0) >>

(* cross sections <<origin (km), direction d with |d| = d[3]>>: Pythagorean directions, origins and steps chosen so that no
   probe along a section falls on a lattice-aligned boundary of the catalogues *)
DepthMethods == <<"begin segment", "starting point", "begin at end segment">>
Sections == << <<<<-347, 203>>, <<1, 0, 1>>>>, <<<<103, -301>>, <<3, 4, 5>>>>, <<<<1507, 1003>>, <<-4, -3, 5>>>>, <<<<1203, -207>>, <<-5, 12, 13>>>> >>
SecEnd(sc) == <<sc[1][1] + 100 * sc[2][1], sc[1][2] + 100 * sc[2][2]>>

(*************************** the machine ************************************)
Init == /\ sph \in BOOLEAN /\ glob \in 1..Len(Globals) /\ frame \in 1..3 /\ sec \in 1..Len(Sections) /\ dm \in 1..Len(DepthMethods)
        /\ feats = <<>> /\ cur = <<>> /\ stage = "none" /\ done = FALSE

(* an abstract feature: type, geometry indices <<g, dip point, segment set>>, depth kind, model indices per kind *)
(* so: section overrides of a line feature -- 0 none, 1 the first coordinate gets the alternative segment table, 2 the last coordinate gets
   the alternative table and a temperature model of its own at section level, 3 the first coordinate gets the alternative table with
   composition and grains models at section level, 4 the last coordinate gets the alternative table whose first segment has a temperature
   model of its own, and velocity models at section level *)
SecModels(a) == CASE a.so = 2 -> ("temperature models" :> <<TUniform(555, "replace")>>)
                  [] a.so = 3 -> ("composition models" :> <<CUniform(<<4>>, "replace")>>) @@ ("grains models" :> <<GUniform(<<1>>, <<Mat(20)>>, <<-1>>)>>)
                  [] a.so = 4 -> ("velocity models" :> <<VUniform(<<-3, 2, 1>>)>>)
                  [] OTHER -> <<>>
SecSegs(a) == LET l == AltSegSets[a.sg] IN
              IF a.so = 4 THEN [i \in 1..Len(l) |-> IF i = 1 THEN l[i] @@ ("temperature models" :> <<TUniform(444, "replace")>>) ELSE l[i]] ELSE l
SecCoord(a) == IF a.so \in {1, 3} THEN 0 ELSE Len(Trenches[a.g]) - 1
New(t, g, dp, sg) == [type |-> t, g |-> g, dp |-> dp, sg |-> sg, so |-> 0, dk |-> 1, tm |-> <<>>, cm |-> <<>>, gm |-> <<>>, vm |-> <<>>]
Start == /\ stage = "none" /\ ~done /\ Len(feats) < MaxFeatures
         /\ \/ \E t \in {"continental plate", "oceanic plate", "mantle layer"}, g \in 1..Len(Polys) : cur' = New(t, g, 0, 0)
            \/ \E t \in {"subducting plate", "fault"}, g \in 1..Len(Trenches), dp \in 1..Len(DipPoints), sg \in 1..Len(SegSets), so \in 0..4 :
                  cur' = [New(t, g, dp, sg) EXCEPT !.so = so]
            \/ \E g \in 1..Len(PlumeGeoms) : cur' = New("plume", g, 0, 0)
         /\ stage' = "depths" /\ UNCHANGED <<dm, sec, sph, glob, frame, feats, done>>
(* depth range: value-at-points surfaces only for area features (they are built from the polygon) *)
HasPoints(k) == DepthKinds[k][1] = AtPoints \/ DepthKinds[k][2] = AtPoints
Depths == /\ stage = "depths"
          /\ \E k \in 1..Len(DepthKinds) : (HasPoints(k) => IsArea(cur.type)) /\ cur' = [cur EXCEPT !.dk = k]
          /\ stage' = "models" /\ UNCHANGED <<dm, sec, sph, glob, frame, feats, done>>
AddModel(key, n) == /\ stage = "models" /\ Len(cur[key]) < 2
                    /\ \E k \in 1..n : cur' = [cur EXCEPT ![key] = Append(@, k)]
                    /\ UNCHANGED <<dm, sec, sph, glob, frame, feats, stage, done>>
AddT == AddModel("tm", Len(TModels(IdF(sph), cur.type)))
AddC == AddModel("cm", Len(CModels(IdF(sph), cur.type)))
AddG == AddModel("gm", Len(GModels(IdF(sph), cur.type)))
AddV == AddModel("vm", Len(VModels(IdF(sph), cur.type)))
Close == /\ stage = "models"
         /\ feats' = Append(feats, cur) /\ cur' = <<>> /\ stage' = "none"
         /\ UNCHANGED <<dm, sec, sph, glob, frame, done>>
Finish == /\ stage = "none" /\ Len(feats) >= 1 /\ ~done /\ done' = TRUE /\ UNCHANGED <<dm, sec, sph, glob, frame, feats, cur, stage>>
Next == Start \/ Depths \/ AddT \/ AddC \/ AddG \/ AddV \/ Close \/ Finish

(*************************** rendering against a frame **********************)
Models(cat, idx) == [i \in 1..Len(idx) |-> cat[idx[i]]]
Render(f, a, k) ==
  LET t == a.type
      dkk == DepthKinds[a.dk]
      lo == IF dkk[1] = AtPoints THEN SurfaceOf(f, a.g, 20 * Km, 40 * Km, 5 * Km) ELSE dkk[1]
      hi == IF dkk[2] = AtPoints THEN SurfaceOf(f, a.g, 300 * Km, -120 * Km, 340 * Km) ELSE dkk[2]
      common == ("model" :> t) @@ ("name" :> "f" \o ToString(k)) @@ ("min depth" :> lo) @@ ("max depth" :> hi)
                @@ ("temperature models" :> Models(TModels(f, t), a.tm)) @@ ("composition models" :> Models(CModels(f, t), a.cm))
                @@ ("grains models" :> Models(GModels(f, t), a.gm)) @@ ("velocity models" :> Models(VModels(f, t), a.vm))
  IN CASE IsArea(t) -> common @@ ("coordinates" :> Pts(f, Polys[a.g]))
       [] IsLine(t) -> common @@ ("coordinates" :> Pts(f, Trenches[a.g])) @@ ("dip point" :> XYg(f, DipPoints[a.dp])) @@ ("segments" :> SegSets[a.sg])
                       @@ (IF a.so > 0 THEN ("sections" :> << ("coordinate" :> SecCoord(a)) @@ ("segments" :> SecSegs(a)) @@ SecModels(a) >>) ELSE <<>>)
       [] OTHER -> LET p == PlumeGeoms[a.g] IN
                   common @@ ("coordinates" :> Pts(f, p.c)) @@ ("cross section depths" :> p.d) @@ ("semi-major axis" :> [i \in 1..Len(p.a) |-> U(f, p.a[i])])
                          @@ ("eccentricity" :> p.e) @@ ("rotation angles" :> [i \in 1..Len(p.r) |-> Azimuth(f, p.r[i])])

(*************************** the document and the probes ********************)
HM == 1000 * Km
RE == 6371000
DocF(f) == World(IF sph THEN Spherical(DepthMethods[dm]) ELSE Cartesian, [k \in 1..Len(feats) |-> Render(f, feats[k], k)]) @@ Globals[glob]
           @@ ("cross section" :> <<XYg(f, Sections[sec][1]), XYg(f, SecEnd(Sections[sec]))>>)
Doc == DocF(IdF(sph))

(* a lattice that covers every geometry of the catalogues, plus coordinates of the geometry catalogues themselves *)
GridKm == {<<-400 + 175 * i, -400 + 185 * j>> : i \in 0..12, j \in 0..10}
LatticeKm == GridKm \cup {Polys[g][i] : g \in 1..Len(Polys), i \in 1..3} \cup {Trenches[g][i] : g \in 1..Len(Trenches), i \in 1..2}
             \cup {PolyInside[g] : g \in 1..Len(PolyInside)}
DepthsM == <<0, 5 * Km, 35 * Km, 90 * Km, 150 * Km, 260 * Km, 420 * Km>>
Row(p, d) == IF sph THEN <<RE - d, Rat(p[1], 100), Rat(p[2], 100), d>> ELSE <<p[1] * Km, p[2] * Km, HM - d, d>>
Rows == LET ps == SetToSeq(LatticeKm) IN
        FlattenSeq([k \in 1..Len(ps) |-> [i \in 1..Len(DepthsM) |-> Row(ps[k], DepthsM[i])]])
AllProps == <<PT, PC(0), PC(1), PG(0, 2), PC(3), PTag, PV, PC(4), PC(5), PG(2, 1), PC(2)>>

Shape == [k \in 1..Len(feats) |-> feats[k].type]
Id(kind) == <<"gen", kind, sph, glob, frame, feats, sec, dm>>
Labels(kind) == <<"gen", kind, IF sph THEN "spherical" ELSE "cartesian">>
(* C13: every answer finite (the replay runs under the sanitizers and judges only that) *)
FiniteB == [id |-> Id("finite"), labels |-> Labels("finite"),
            steps |-> << [op |-> "create", h |-> 1, wb |-> Doc, expect |-> "any"],
                         [op |-> "qtable", h |-> 1, dim |-> 3, sph |-> sph, props |-> AllProps, may_throw |-> TRUE, rows |-> Rows] >>]
(* C01: a twin built from the same file answers bit for bit the same; every block of a batched reply is the property
   asked alone; the reversed list gives the reversed sequence of blocks *)
(* ... and the other public query, distance_to_plane for every slab and fault of the document, asked at the same point right
   before (on the first world only), does not change anything *)
LineNames == LET idx == {k \in 1..Len(feats) : IsLine(feats[k].type)} IN [i \in 1..Cardinality(idx) |-> "f" \o ToString(SetToSeq(idx)[i])]
PurityB == [id |-> Id("purity"), labels |-> Labels("purity"),
            steps |-> << [op |-> "create", h |-> 1, wb |-> Doc, expect |-> "any"], [op |-> "create", h |-> 2, wb |-> Doc, expect |-> "any"],
                         [op |-> "qtable", h |-> 1, h2 |-> 2, dim |-> 3, sph |-> sph, props |-> AllProps, may_throw |-> TRUE, blocks |-> TRUE,
                          pre_dist |-> LineNames, rows |-> Rows] >>]
(* C07: the same document with the acceleration shortcuts neutralised (hook) answers bit for bit the same *)
CullB == [id |-> Id("culling"), labels |-> Labels("culling"),
          steps |-> << [op |-> "create", h |-> 1, wb |-> Doc, expect |-> "any"], [op |-> "create", h |-> 2, wb |-> Doc, expect |-> "any", culling |-> FALSE],
                       [op |-> "qtable", h |-> 1, h2 |-> 2, dim |-> 3, sph |-> sph, props |-> AllProps, may_throw |-> TRUE, rows |-> Rows] >>]
(* C16: the same document built through the C interface answers every batched request bit for bit like the World *)
WrapperB == [id |-> Id("wrapper"), labels |-> Labels("wrapper"),
             steps |-> << [op |-> "create", h |-> 1, wb |-> Doc, expect |-> "any"], [op |-> "create", h |-> 2, api |-> "c", wb |-> Doc, expect |-> "any"],
                          [op |-> "qtable", h |-> 1, h2 |-> 2, dim |-> 3, sph |-> sph, props |-> AllProps, may_throw |-> TRUE, rows |-> Rows],
                          [op |-> "release", h |-> 2] >>]
(* C08: the document written against another frame answers the same at the moved points (temperature, compositions,
   tag; vectors and orientations turn with the frame and are not compared).  Probes are the plain grid, not the
   catalogue's own coordinates: on a boundary a rounding-size difference of the moved coordinates legitimately flips
   the answer. *)
MotionProps == <<PT, PC(0), PC(1), PC(3), PTag, PC(4), PC(5), PC(2)>>
MRow(f, p, d) == IF sph THEN <<RE - d, Rat(p[1], 100), Rat(p[2], 100), d, RE - d, Rat(p[1] + 100 * f.dlon, 100), Rat(p[2], 100)>>
                 ELSE LET q == XYg(f, p) IN <<p[1] * Km, p[2] * Km, HM - d, d, q[1], q[2], HM - d>>
MRows(f) == LET ps == SetToSeq(GridKm) IN
            FlattenSeq([k \in 1..Len(ps) |-> [i \in 1..Len(DepthsM) |-> MRow(f, ps[k], DepthsM[i])]])
MotionB == LET f == Frames(sph)[frame] IN
           [id |-> Id("motion"), labels |-> Labels("motion"),
            steps |-> << [op |-> "create", h |-> 1, wb |-> Doc, expect |-> "any"], [op |-> "create", h |-> 2, wb |-> DocF(f), expect |-> "any"],
                         [op |-> "qtable", h |-> 1, h2 |-> 2, dim |-> 3, sph |-> sph, props |-> MotionProps, pos2 |-> <<4, 5, 6>>,
                          twinrel |-> Dec(1, -6), twinabs |-> Dec(1, -3), jitter |-> Dec(1, -7), rows |-> MRows(f)] >>]

(* C02 / C03: only the features that contain the point matter.  Every feature gets a tag string of its own; the worlds made of one
   feature each tell which features contain a point (their tag there is not -1) - membership is the feature's own business -; the world
   made of exactly those features, in file order, must answer bit for bit like the full world (deleting any set of non-containing
   features changes nothing), the full world's tag is that of the last containing feature, and where no feature contains the point the
   full world answers like the world without features (the background).  Handles: 1 = full document, 2 + m = the sub-document of the
   features whose bit is set in m < 2^n - 1. *)
Pow2(k) == IF k = 0 THEN 1 ELSE IF k = 1 THEN 2 ELSE IF k = 2 THEN 4 ELSE IF k = 3 THEN 8 ELSE 16
Bit(m, k) == (m \div Pow2(k - 1)) % 2 = 1
TagOf(k) == "f" \o ToString(k)
DocM(m) == LET idx == SelectSeq([k \in 1..Len(feats) |-> k], LAMBDA k : Bit(m, k)) IN
           World(IF sph THEN Spherical(DepthMethods[dm]) ELSE Cartesian,
                 [i \in 1..Len(idx) |-> ("tag" :> TagOf(idx[i])) @@ Render(IdF(sph), feats[idx[i]], idx[i])]) @@ Globals[glob]
           @@ ("cross section" :> <<XYg(IdF(sph), Sections[sec][1]), XYg(IdF(sph), SecEnd(Sections[sec]))>>)
PaintProps == <<PT, PC(0), PC(1), PG(0, 2), PC(3), PV, PC(4), PC(5), PG(2, 1), PC(2)>>
PaintB == LET n == Len(feats)  full == Pow2(n) - 1
              hof(m) == IF m = full THEN 1 ELSE 2 + m IN
          [id |-> Id("paint"), labels |-> Labels("paint"),
           steps |-> << [op |-> "create", h |-> 1, wb |-> DocM(full), expect |-> "any"] >>
                     \o [m \in 1..full |-> [op |-> "create", h |-> 1 + m, wb |-> DocM(m - 1), expect |-> "any"]]
                     \o << [op |-> "qtable", h |-> 1, dim |-> 3, sph |-> sph, props |-> PaintProps, may_throw |-> TRUE,
                            subsets |-> [singles |-> [k \in 1..n |-> hof(Pow2(k - 1))], names |-> [k \in 1..n |-> TagOf(k)],
                                         worlds |-> [m \in 1..full |-> <<m - 1, 1 + m>>]], rows |-> Rows] >>]

(* C10: a segment that declares no models of a kind uses those of its section, or else of the feature; a coordinate without a section
   entry uses the default segment list.  The explicit form of a document writes all of that out - every coordinate of every slab and
   fault gets a section entry, every segment of every list carries the four model lists it would have inherited - and must build an
   indistinguishable world. *)
RenderX(f, a, k) ==
  LET t == a.type
      r == Render(f, a, k)
      tm == Models(TModels(f, t), a.tm)  cm == Models(CModels(f, t), a.cm)  gm == Models(GModels(f, t), a.gm)  vm == Models(VModels(f, t), a.vm)
      feat == ("temperature models" :> tm) @@ ("composition models" :> cm) @@ ("grains models" :> gm) @@ ("velocity models" :> vm)
      inh(lvl) == lvl @@ feat                                                  \* what a level hands down: its own lists, else the feature's
      segs(list, lvl) == [i \in 1..Len(list) |-> list[i] @@ inh(lvl)]           \* a segment's own lists win
      nc == Len(Trenches[a.g])
      over == IF a.so > 0 THEN SecCoord(a) ELSE -1                             \* the coordinate the document overrides, if any
      entry(c) == IF c = over THEN ("coordinate" :> c) @@ ("segments" :> segs(SecSegs(a), SecModels(a))) @@ SecModels(a)
                  ELSE ("coordinate" :> c) @@ ("segments" :> segs(SegSets[a.sg], <<>>))
  IN IF IsLine(t) THEN ("segments" :> segs(SegSets[a.sg], <<>>)) @@ ("sections" :> [i \in 1..nc |-> entry(i - 1)]) @@ r ELSE r
DocX == World(IF sph THEN Spherical(DepthMethods[dm]) ELSE Cartesian, [k \in 1..Len(feats) |-> RenderX(IdF(sph), feats[k], k)]) @@ Globals[glob]
        @@ ("cross section" :> <<XYg(IdF(sph), Sections[sec][1]), XYg(IdF(sph), SecEnd(Sections[sec]))>>)
HasLine == \E k \in 1..Len(feats) : IsLine(feats[k].type)
ExplicitB == [id |-> Id("explicit"), labels |-> Labels("explicit"),
              steps |-> << [op |-> "create", h |-> 1, wb |-> Doc, expect |-> "any"], [op |-> "create", h |-> 2, wb |-> DocX, expect |-> "any"],
                           [op |-> "qtable", h |-> 1, h2 |-> 2, dim |-> 3, sph |-> sph, props |-> AllProps, may_throw |-> TRUE, pre_dist |-> LineNames, rows |-> Rows] >>]

(* C14: the document as a job for real threads (harness/threads.cc): one probe per lattice position, the depth cycling *)
ThreadJob == LET n == Len(Rows) \div Len(DepthsM) IN
             [wb |-> Doc, gen |-> Id("threads"),
              points |-> [k \in 1..n |-> LET r == Rows[Len(DepthsM) * (k - 1) + ((k - 1) % Len(DepthsM)) + 1] IN
                                          IF sph THEN [sph |-> <<r[1], r[2], r[3]>>, depth |-> r[4]] ELSE [p |-> <<r[1], r[2], r[3]>>, depth |-> r[4]]],
              lists |-> <<AllProps, <<PT>>, <<PTag, PV, PC(1), PG(0, 2)>>>>]

(* C09: along the document's cross section the 2D interface answers like the 3D interface at the mapped point
   (temperature, compositions, grains, tag; the velocity is projected and is CrossSection.tla's subject) *)
SectionProps == <<PT, PC(0), PC(1), PG(0, 2), PC(3), PTag, PC(4), PC(5), PC(2)>>
SRow(s, d) ==
  LET sc == Sections[sec]  o == sc[1]  dd == sc[2] IN
  IF sph THEN <<RE - d, Rat(o[1] * dd[3] + s * dd[1], 100 * dd[3]), Rat(o[2] * dd[3] + s * dd[2], 100 * dd[3]), d,
                Mul(RE - d, Cos(Rad(Rat(s, 100)))), Mul(RE - d, Sin(Rad(Rat(s, 100))))>>
  ELSE <<Rat((o[1] * dd[3] + s * dd[1]) * Km, dd[3]), Rat((o[2] * dd[3] + s * dd[2]) * Km, dd[3]), HM - d, d, s * Km, HM - d>>
SRows == LET ss == SetToSeq({-200 + 157 * i : i \in 0..13}) IN
         FlattenSeq([k \in 1..Len(ss) |-> [i \in 1..Len(DepthsM) |-> SRow(ss[k], DepthsM[i])]])
SectionB == [id |-> Id("section"), labels |-> Labels("section"),
             steps |-> << [op |-> "create", h |-> 1, wb |-> Doc, expect |-> "any"],
                          [op |-> "qtable", h |-> 1, dim |-> 3, sph |-> sph, props |-> SectionProps, may_throw |-> TRUE,
                           also2d |-> [x |-> 4, z |-> 5, rel |-> Dec(1, -7), abs |-> Dec(1, -7)], rows |-> SRows] >>]

(* the same along the cross section of the document written against the second frame: the section's end points are moved with
   everything else (on the sphere across or beyond the +-180 meridian, possibly only one of the two) *)
SMRow(f, s, d) ==
  LET sc == Sections[sec]  o == sc[1]  dd == sc[2] IN
  IF sph THEN <<RE - d, Rat(o[1] * dd[3] + s * dd[1] + 100 * f.dlon * dd[3], 100 * dd[3]), Rat(o[2] * dd[3] + s * dd[2], 100 * dd[3]), d,
                Mul(RE - d, Cos(Rad(Rat(s, 100)))), Mul(RE - d, Sin(Rad(Rat(s, 100))))>>
  ELSE LET x == o[1] * dd[3] + s * dd[1]  y == o[2] * dd[3] + s * dd[2]      \* the point on the base section, times dd[3] (km)
       IN <<Rat((f.c * x - f.s * y + f.n * f.tx * dd[3]) * Km, f.n * dd[3]), Rat((f.s * x + f.c * y + f.n * f.ty * dd[3]) * Km, f.n * dd[3]), HM - d, d, s * Km, HM - d>>
SMRows(f) == LET ss == SetToSeq({-200 + 157 * i : i \in 0..13}) IN
             FlattenSeq([k \in 1..Len(ss) |-> [i \in 1..Len(DepthsM) |-> SMRow(f, ss[k], DepthsM[i])]])
SectionMovedB == LET f == Frames(sph)[frame] IN
                 [id |-> Id("section-moved"), labels |-> Labels("section"),
                  steps |-> << [op |-> "create", h |-> 1, wb |-> DocF(f), expect |-> "any"],
                               [op |-> "qtable", h |-> 1, dim |-> 3, sph |-> sph, props |-> SectionProps, may_throw |-> TRUE,
                                also2d |-> [x |-> 4, z |-> 5, rel |-> Dec(1, -7), abs |-> Dec(1, -7)], rows |-> SMRows(f)] >>]

Emit == ~done \/ ((IF HasLine THEN PrintT(<<"B", ToJson(ExplicitB)>>) ELSE TRUE) /\ (IF Len(feats) <= 3 THEN PrintT(<<"B", ToJson(PaintB)>>) ELSE TRUE) /\ PrintT(<<"B", ToJson(SectionMovedB)>>) /\ PrintT(<<"B", ToJson(SectionB)>>) /\ PrintT(<<"J", ToJson(ThreadJob)>>) /\ PrintT(<<"B", ToJson(FiniteB)>>) /\ PrintT(<<"B", ToJson(PurityB)>>) /\ PrintT(<<"B", ToJson(CullB)>>)
                  /\ PrintT(<<"B", ToJson(WrapperB)>>) /\ PrintT(<<"B", ToJson(MotionB)>>))

(* the machine only ever appends well-formed features; the frames are rigid *)
WellFormed == /\ \A k \in 1..Len(feats) : /\ feats[k].type \in {Types[i] : i \in 1..Len(Types)}
                                          /\ (HasPoints(feats[k].dk) => IsArea(feats[k].type))
                                          /\ \A i \in 1..Len(feats[k].tm) : feats[k].tm[i] <= Len(TModels(IdF(sph), feats[k].type))
              /\ \A f \in {Frames(FALSE)[i] : i \in 1..3} : f.c * f.c + f.s * f.s = f.n * f.n
=============================================================================
