---- MODULE MC_Pool_partition ----
EXTENDS Pool
CONSTANTS PN, PT
ASSUME PartitionTheorem(PN, PT)
====
