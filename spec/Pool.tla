-------------------------------- MODULE Pool --------------------------------
(***************************************************************************)
(* C14 -- gwb-grid's ThreadPool::parallel_for(start, end, func)            *)
(* (source/gwb-grid/main.cc:154-213), one action per step of the code:     *)
(*                                                                         *)
(*   main:    n = end - start + 1; slice = max(n / T, 1)   (integer)       *)
(*            for i in 0 .. T-2 while i1 < end: launch worker(i1, i2);     *)
(*                 i1 = i2; i2 = min(i2 + slice, end)                      *)
(*            if i1 < end: launch worker(i1, end)                          *)
(*            join all                                                     *)
(*   worker(k1, k2): for k in k1 .. k2-1: func(k)   -- func(k) writes      *)
(*            result slot k only (main.cc:1604-1636)                       *)
(*                                                                         *)
(* Properties: every index in [start, end) is executed exactly once, by    *)
(* exactly one worker, whatever the interleaving; at most T workers; all   *)
(* workers terminate and main joins; the final result does not depend on   *)
(* the schedule.                                                           *)
(***************************************************************************)
EXTENDS Naturals, Sequences, FiniteSets, TLC

CONSTANTS Nmax, Tmax        \* item counts 0..Nmax and thread counts 1..Tmax explored

Min2(a, b) == IF a < b THEN a ELSE b
Max2(a, b) == IF a > b THEN a ELSE b

Slice(n, T) == Max2((n + 1) \div T, 1)           \* start = 0, end = n

(* the ranges main launches, as a sequence of <<lo, hi>>: the sequential meaning of the launch loop *)
RECURSIVE Launches(_, _, _, _, _)
Launches(n, T, i, i1, i2) ==
  IF i + 1 < T /\ i1 < n
  THEN <<<<i1, i2>>>> \o Launches(n, T, i + 1, i2, Min2(i2 + Slice(n, T), n))
  ELSE IF i1 < n THEN <<<<i1, n>>>> ELSE <<>>
Ranges(n, T) == Launches(n, T, 0, 0, Min2(Slice(n, T), n))

Partition(rs, n) ==
  /\ \A k \in 0..(n - 1) : Cardinality({j \in 1..Len(rs) : rs[j][1] <= k /\ k < rs[j][2]}) = 1
  /\ \A j \in 1..Len(rs) : rs[j][1] < rs[j][2] /\ rs[j][2] <= n
  /\ \A j \in 1..(Len(rs) - 1) : rs[j][2] = rs[j + 1][1]
PartitionTheorem(nmax, tmax) == \A n \in 0..nmax, T \in 1..tmax : Partition(Ranges(n, T), n) /\ Len(Ranges(n, T)) <= T

(***************************************************************************)
(* The concurrent machine                                                  *)
(***************************************************************************)
VARIABLES n, T,            \* chosen at Init
          mainpc,          \* "launch" | "last" | "join" | "done"
          i, i1, i2,       \* main's loop variables
          workers,         \* sequence of [lo, hi, k]: k = next index to run
          written          \* [0..n-1 -> number of times func(k) ran]
vars == <<n, T, mainpc, i, i1, i2, workers, written>>

Init == /\ n \in 0..Nmax /\ T \in 1..Tmax
        /\ mainpc = "launch" /\ i = 0 /\ i1 = 0 /\ i2 = Min2(Slice(n, T), n)
        /\ workers = <<>> /\ written = [k \in 0..(n - 1) |-> 0]

LaunchOne == /\ mainpc = "launch" /\ i + 1 < T /\ i1 < n
             /\ workers' = Append(workers, [lo |-> i1, hi |-> i2, k |-> i1])
             /\ i' = i + 1 /\ i1' = i2 /\ i2' = Min2(i2 + Slice(n, T), n)
             /\ UNCHANGED <<n, T, mainpc, written>>
LoopExit  == /\ mainpc = "launch" /\ ~(i + 1 < T /\ i1 < n)
             /\ mainpc' = "last" /\ UNCHANGED <<n, T, i, i1, i2, workers, written>>
LaunchLast == /\ mainpc = "last"
              /\ workers' = IF i1 < n THEN Append(workers, [lo |-> i1, hi |-> n, k |-> i1]) ELSE workers
              /\ mainpc' = "join" /\ UNCHANGED <<n, T, i, i1, i2, written>>
Work(w) == /\ w \in 1..Len(workers) /\ workers[w].k < workers[w].hi
           /\ written' = [written EXCEPT ![workers[w].k] = @ + 1]      \* func(k): touches slot k only
           /\ workers' = [workers EXCEPT ![w].k = @ + 1]
           /\ UNCHANGED <<n, T, mainpc, i, i1, i2>>
Join == /\ mainpc = "join" /\ \A w \in 1..Len(workers) : workers[w].k = workers[w].hi
        /\ mainpc' = "done" /\ UNCHANGED <<n, T, i, i1, i2, workers, written>>

Next == LaunchOne \/ LoopExit \/ LaunchLast \/ (\E w \in 1..Len(workers) : Work(w)) \/ Join
Spec == Init /\ [][Next]_vars
FairSpec == Spec /\ WF_vars(LaunchOne) /\ WF_vars(LoopExit) /\ WF_vars(LaunchLast) /\ WF_vars(Join)
                 /\ \A w \in 1..Tmax : WF_vars(Work(w))

NoDoubleWrite == \A k \in 0..(n - 1) : written[k] <= 1
AtMostT == Len(workers) <= T
DoneMeansAll == mainpc = "done" => \A k \in 0..(n - 1) : written[k] = 1
LaunchedMatchSequentialMeaning ==
  mainpc \in {"join", "done"} => [w \in 1..Len(workers) |-> <<workers[w].lo, workers[w].hi>>] = Ranges(n, T)
Terminates == <>(mainpc = "done")
=============================================================================
