------------------------------ MODULE Kernels ------------------------------
(***************************************************************************)
(* C19 -- geometric kernels agree with their brute-force definitions.      *)
(*                                                                         *)
(* kd-tree (kd_tree.cc:34-208).  Mech: any arrangement nth_element may     *)
(*   leave (median at the middle, no larger key to its left, no smaller    *)
(*   key to its right, recursively with the other axis) searched by the    *)
(*   pruned recursive descent, transcribed with exact squared distances.   *)
(*   Prop: the returned node is at the minimal distance.  TLC checks Mech  *)
(*   |= Prop for every point set, every legal arrangement and every query  *)
(*   of the doubled lattice; every point set is replayed on the real tree. *)
(* great circle (spherical.cc:109-125).  Points are the 26 directions with *)
(*   coordinates in {-1,0,1}: their dot products are integers, so TLC      *)
(*   evaluates the clamp of the mechanism exactly.  Prop: R * acos(u.v /   *)
(*   (|u||v|)) for ANY pair, also more than 90 degrees apart.              *)
(* Bezier / round trip: TLC enumerates polylines whose bends are at most   *)
(*   60 degrees by an exact integer test and the query points; the         *)
(*   comparison with brute force is numeric (harness).                     *)
(***************************************************************************)
EXTENDS Wb, Json, SequencesExt

CONSTANTS N,            \* kd-tree lattice size
          MaxPts,       \* kd-tree: most points
          PreFixF10     \* TRUE: great-circle clamp as before the fix (dot product clamped to [0,1])

(*************************** kd-tree ***************************************)
Lattice == {<<2 * i, 2 * j>> : i, j \in 0..(N - 1)}
Queries == {<<i, j>> : i, j \in (-1)..(2 * N - 1)}
D2(a, b) == (a[1] - b[1]) * (a[1] - b[1]) + (a[2] - b[2]) * (a[2] - b[2])

(* legal results of create_tree(left, right, axis) on array arr (axis 1 = x, 2 = y) *)
RECURSIVE TreeOK(_, _, _, _)
TreeOK(arr, left, right, axis) ==
  LET mid == (left + right) \div 2 IN
  /\ \A k \in left..(mid - 1) : arr[k][axis] <= arr[mid][axis]
  /\ \A k \in (mid + 1)..right : arr[k][axis] >= arr[mid][axis]
  /\ (left < mid => TreeOK(arr, left, mid - 1, 3 - axis))
  /\ (right > mid => TreeOK(arr, mid + 1, right, 3 - axis))

(* find_closest_point_recursive; best = <<index, squared distance>> (index 0, "infinite" distance at the start) *)
Inf == 1000000
(* (node[axis] - check[axis]) < sqrt(best)  on integers *)
Closer(diff, best2) == diff < 0 \/ diff * diff < best2
RECURSIVE Search(_, _, _, _, _, _)
Search(arr, q, left, right, axis, best) ==
  LET mid == (left + right) \div 2
      node == arr[mid]
      d == D2(node, q)
      Upd(b) == IF b[2] > d THEN <<mid, d>> ELSE b
  IN IF q[axis] < node[axis]
     THEN LET b1 == IF left < mid THEN Search(arr, q, left, mid - 1, 3 - axis, best) ELSE best
              b2 == Upd(b1)
          IN IF right > mid /\ Closer(node[axis] - q[axis], b2[2])
             THEN Search(arr, q, mid + 1, right, 3 - axis, b2) ELSE b2
     ELSE LET b1 == IF right > mid THEN Search(arr, q, mid + 1, right, 3 - axis, best) ELSE best
              b2 == Upd(b1)
          IN IF left < mid /\ Closer(node[axis] - q[axis], b2[2])
             THEN Search(arr, q, left, mid - 1, 3 - axis, b2) ELSE b2
MechNearest2(arr, q) == Search(arr, q, 1, Len(arr), 1, <<0, Inf>>)[2]
PropNearest2(S, q) == CHOOSE m \in {D2(p, q) : p \in S} : \A p \in S : m <= D2(p, q)

Perms(S) == {f \in [1..Cardinality(S) -> S] : \A i, j \in 1..Cardinality(S) : i # j => f[i] # f[j]}

VARIABLE pts        \* the point set being built (as a sequence in increasing order, so each set is built once)
Less(a, b) == a[1] < b[1] \/ (a[1] = b[1] /\ a[2] < b[2])
KInit == pts = <<>>
KNext == /\ Len(pts) < MaxPts
         /\ \E v \in Lattice : (IF pts = <<>> THEN TRUE ELSE Less(pts[Len(pts)], v)) /\ pts' = Append(pts, v)
PointSet == {pts[i] : i \in 1..Len(pts)}
KdMechRefinesProp ==
  pts = <<>> \/ \A arr \in Perms(PointSet) : TreeOK(arr, 1, Len(arr), 1) =>
                    \A q \in Queries : MechNearest2(arr, q) = PropNearest2(PointSet, q)

(* The statement is scale-free, the code must be too: every point set is replayed at four lattice units -- 5 km, 1,
   1/8 and 2^-10 (powers of two, so the scaled coordinates and squared distances stay exact); below unit spacing a
   distance is larger than its square, which is where a comparison that mixes the two goes wrong. *)
Units == <<5 * Km, 1, Dec(125, -3), Dec(9765625, -10)>>
KdStep(u) ==
  LET qs == SetToSeq(Queries) IN
  [op |-> "kdtree", points |-> [i \in 1..Len(pts) |-> <<Mul(pts[i][1], u), Mul(pts[i][2], u)>>],
   queries |-> [i \in 1..Len(qs) |-> <<Mul(qs[i][1], u), Mul(qs[i][2], u), Mul(Mul(PropNearest2(PointSet, qs[i]), u), u)>>]]
KdBehaviour ==
  [id |-> <<"kdtree", pts>>, labels |-> <<"kdtree", "n" \o ToString(Len(pts))>>,
   steps |-> [k \in 1..Len(Units) |-> KdStep(Units[k])]]
EmitKd == pts = <<>> \/ PrintT(<<"B", ToJson(KdBehaviour)>>)

(*************************** great circle **********************************)
Dirs == {<<a, b, c>> : a, b, c \in {-1, 0, 1}} \ {<<0, 0, 0>>}
Dot(u, v) == u[1] * v[1] + u[2] * v[2] + u[3] * v[3]
N2(u) == Dot(u, u)
(* the mechanism clamps the normalised dot product before acos; on this configuration the clamp only
   matters through the sign of the dot product *)
MechCos(u, v) == Div(IF PreFixF10 /\ Dot(u, v) < 0 THEN 0 ELSE Dot(u, v), Sqrt(N2(u) * N2(v)))
PropCos(u, v) == Div(Dot(u, v), Sqrt(N2(u) * N2(v)))
GcMechRefinesProp == \A u, v \in Dirs : MechCos(u, v) = PropCos(u, v)

RE == 6371000
Lon(u) == Bin("atan2", u[2], u[1])
Lat(u) == Un("asin", Div(u[3], Sqrt(N2(u))))
GcBehaviour ==
  LET prs == SetToSeq(Dirs \X Dirs) IN
  [id |-> "great-circle", labels |-> <<"great-circle">>,
   steps |-> <<[op |-> "create", h |-> 1, wb |-> World(Spherical("begin segment"), <<>>)],
               [op |-> "gc", h |-> 1, abs |-> Mul(RE, Dec(1, -6)),
                pairs |-> [i \in 1..Len(prs) |->
                    <<RE, Lon(prs[i][1]), Lat(prs[i][1]), Lon(prs[i][2]), Lat(prs[i][2]),
                      Mul(RE, Un("acos", MinT(1, MaxT(-1, PropCos(prs[i][1], prs[i][2])))))>>]]>>]
EmitGc == PrintT(<<"B", ToJson(GcBehaviour)>>)

(*************************** Bezier ***************************************)
(* polylines on a BN x BN lattice (unit 100 km) with 2..BMax points, consecutive points distinct, bends <= 60 degrees:
   for edge vectors a, b: a.b >= |a||b|/2  <=>  a.b >= 0 /\ 4 (a.b)^2 >= |a|^2 |b|^2 *)
CONSTANTS BN, BMax       \* Bezier lattice size and most points of a polyline
BLattice == {<<i, j>> : i, j \in 0..(BN - 1)}
Vec(p, q) == <<q[1] - p[1], q[2] - p[2]>>
Dot2(a, b) == a[1] * b[1] + a[2] * b[2]
BendOK(p, q, r) == LET a == Vec(p, q) b == Vec(q, r) IN Dot2(a, b) >= 0 /\ 4 * Dot2(a, b) * Dot2(a, b) >= Dot2(a, a) * Dot2(b, b)
BInit == pts \in {<<v>> : v \in BLattice}
BNext == /\ Len(pts) < BMax
         /\ \E v \in BLattice :
              /\ v # pts[Len(pts)]
              /\ Len(pts) >= 2 => BendOK(pts[Len(pts) - 1], pts[Len(pts)], v)
              /\ pts' = Append(pts, v)
(* query points around every coordinate, on a grid four times finer than the lattice *)
BQueries(pl) == {<<pl[i][1] * 4 + dx, pl[i][2] * 4 + dy, 0>> : i \in 1..Len(pl), dx \in {-3, 0, 2}, dy \in {-2, 1, 3}}
                \* points a little off the polyline, 1/16 of a part before and after every interior coordinate (x 16 to stay integral)
                \cup {<<(15 * pl[i][1] + pl[i - 1][1]) \div 4, (15 * pl[i][2] + pl[i - 1][2]) \div 4, 0>> : i \in 2..(Len(pl) - 1)}
                \cup {<<(15 * pl[i][1] + pl[i + 1][1]) \div 4, (15 * pl[i][2] + pl[i + 1][2]) \div 4, 0>> : i \in 2..(Len(pl) - 1)}
Cross2(a, b) == a[1] * b[2] - a[2] * b[1]
HasCollinearTriple(pl) == \E i \in 1..(Len(pl) - 2) : Cross2(Vec(pl[i], pl[i + 1]), Vec(pl[i + 1], pl[i + 2])) = 0
(* far query points: the whole lattice region and two units around it (up to a few segment lengths from the line).  Far from the
   line two parts of a zig-zag can be almost equally close, and a part whose chord is farther than another one can still hold the
   closest point.  For far points a missing foot is accepted (the foot may be outside the curve) and "noticeably closer" means
   closer by more than half a percent of the distance (the search is accurate to a few hundredths of a percent there: next to
   an end of the curve it reports the end although a point a little inside is 0.1 % closer). *)
BFar(pl) == {<<4 * x, 4 * y, 0>> : x, y \in (-2)..(BN + 1)} \ BQueries(pl)
BezierBehaviour(pl) ==
  LET qs == SetToSeq(BQueries(pl))  fs == SetToSeq(BFar(pl)) IN
  [id |-> <<"bezier", pl>>, labels |-> <<"bezier", "n" \o ToString(Len(pl)), IF HasCollinearTriple(pl) THEN "exactly-collinear-coordinates" ELSE "no-collinear-triple">>,
   steps |-> <<[op |-> "bezier", samples |-> 400, points |-> [i \in 1..Len(pl) |-> <<pl[i][1] * 100 * Km, pl[i][2] * 100 * Km>>],
                queries |-> [i \in 1..Len(qs) |-> <<qs[i][1] * 25 * Km, qs[i][2] * 25 * Km, qs[i][3]>>]],
               [op |-> "bezier", samples |-> 400, nofoot_ok |-> TRUE, noticeable_rel |-> Dec(5, -3), points |-> [i \in 1..Len(pl) |-> <<pl[i][1] * 100 * Km, pl[i][2] * 100 * Km>>],
                queries |-> [i \in 1..Len(fs) |-> <<fs[i][1] * 25 * Km, fs[i][2] * 25 * Km, fs[i][3]>>]]>>]
EmitBezier == Len(pts) < 2 \/ PrintT(<<"B", ToJson(BezierBehaviour(pts))>>)

(* Zig-zag trenches: n points, equal segment lengths, the direction alternating by +- bend / 2 about an orientation, so that
   consecutive bends have opposite signs and the parts in between are S-shaped.  The coordinates are symbolic terms (the
   harness evaluates the sines and cosines); the query points are every point of a 20 km grid within 300 km of the
   coordinates' bounding box.  Far from the line an earlier and a later part can be almost equally close. *)
ZigZag == [n : {4, 6}, bend : {20, 40, 60}, len : {100, 200, 300}, orient : {0, 35, 110}]
RECURSIVE ZigPoint(_, _)
ZigPoint(z, k) == IF k = 1 THEN <<0, 0>>
                  ELSE LET p == ZigPoint(z, k - 1)
                           a == Rad(z.orient + ((IF k % 2 = 0 THEN z.bend ELSE -z.bend) \div 2))
                       IN <<Add(p[1], Mul(z.len * Km, Cos(a))), Add(p[2], Mul(z.len * Km, Sin(a)))>>
ZigBehaviour(z) ==
  [id |-> <<"bezier-zigzag", z>>, labels |-> <<"bezier", "zigzag", "n" \o ToString(z.n)>>,
   steps |-> <<[op |-> "bezier", samples |-> 1000, nofoot_ok |-> TRUE, noticeable_rel |-> Dec(5, -3),
                points |-> [k \in 1..z.n |-> ZigPoint(z, k)], grid |-> [margin |-> 300 * Km, step |-> 20 * Km]]>>]
EmitZigZag == \A z \in ZigZag : PrintT(<<"B", ToJson(ZigBehaviour(z))>>)

(*************************** round trip ************************************)
RoundTrip ==
  [id |-> "roundtrip", labels |-> <<"roundtrip">>,
   steps |-> <<[op |-> "roundtrip",
                points |-> SetToSeq({<<a * 1000 * Km, b * 1000 * Km, c * 1000 * Km>> : a, b, c \in {-6, -1, 0, 1, 3}} \ {<<0, 0, 0>>})
                           \o << <<1, 0, 0>>, <<0, 0, -6371000>>, <<-6371000, Dec(1, -9), 0>>, <<-6371000, Dec(-1, -9), 0>>, <<Dec(1, -3), Dec(1, -3), 6371000>> >>]>>]
EmitRoundTrip == PrintT(<<"B", ToJson(RoundTrip)>>)
=============================================================================
