------------------------------- MODULE Wb -------------------------------
(***************************************************************************)
(* Vocabulary of the world-builder input file and of the query interface.  *)
(* A world file is a string-keyed function; ToJson renders it as the JSON   *)
(* object GWB reads, so "abstract configuration -> bytes" is part of the    *)
(* specification.  Numbers that are not integers are Dec(m, e) = m * 10^e   *)
(* (rendered as that decimal literal) or symbolic real terms (Terms below), *)
(* both evaluated by the harness, never by TLC.                             *)
(***************************************************************************)
EXTENDS Naturals, Integers, Sequences, FiniteSets, TLC

Dec(m, e) == [dec |-> <<m, e>>]
Rat(n, d) == [rat |-> <<n, d>>]

(* symbolic real terms *)
Bin(o, x, y) == [op |-> o, a |-> x, b |-> y]
Un(o, x)     == [op |-> o, a |-> x]
Add(x, y) == Bin("add", x, y)
Sub(x, y) == Bin("sub", x, y)
Mul(x, y) == Bin("mul", x, y)
Div(x, y) == Bin("div", x, y)
Exp(x)    == Un("exp", x)
Sqrt(x)   == Un("sqrt", x)
Cos(x)    == Un("cos", x)
Sin(x)    == Un("sin", x)
Erfc(x)   == Un("erfc", x)
Rad(x)    == Un("deg2rad", x)
MinT(x, y) == Bin("min", x, y)
MaxT(x, y) == Bin("max", x, y)

Km == 1000

(* optional entries of an object *)
Opt(c, f) == IF c THEN f ELSE <<>>

(***************************************************************************)
(* Environment.  A behaviour of any module in this directory is a sequence *)
(* of steps against the worlds it names.  The process it runs in is not    *)
(* its own: other worlds may have been built before, may be alive, and may *)
(* be asked anything between two of its steps,                             *)
(*     Interfere == \E w \in OtherLiveWorlds, q \in Queries : Ask(w, q)     *)
(* and Interfere leaves every variable of every specification unchanged -- *)
(* no expectation of any behaviour mentions it.  The harness implements    *)
(* the action for all modules at once (--interfere: the most recently      *)
(* built documents stay alive as decoy worlds and one of them is asked the *)
(* same question right before every query).                                *)
(***************************************************************************)

(***************************************************************************)
(* Query interface: a property request is <<kind, c, n>>                   *)
(*   1 temperature, 2 composition c, 3 grains of composition c with n      *)
(*   grains, 4 tag, 5 velocity                                             *)
(***************************************************************************)
PT       == <<1, 0, 0>>
PC(c)    == <<2, c, 0>>
PG(c, n) == <<3, c, n>>
PTag     == <<4, 0, 0>>
PV       == <<5, 0, 0>>

Size(p) == CASE p[1] = 1 -> 1
             [] p[1] = 2 -> 1
             [] p[1] = 3 -> 10 * p[3]
             [] p[1] = 4 -> 1
             [] p[1] = 5 -> 3

RECURSIVE SumSeq(_)
SumSeq(s) == IF s = <<>> THEN 0 ELSE Head(s) + SumSeq(Tail(s))

(* Prop: block i of a batched reply starts at the sum of the sizes before it *)
Offset(props, i) == SumSeq([j \in 1..(i-1) |-> Size(props[j])])
Total(props)     == SumSeq([j \in 1..Len(props) |-> Size(props[j])])

PropName(p) == CASE p[1] = 1 -> "T"
                 [] p[1] = 2 -> "C" \o ToString(p[2])
                 [] p[1] = 3 -> "G" \o ToString(p[2]) \o "x" \o ToString(p[3])
                 [] p[1] = 4 -> "Tag"
                 [] p[1] = 5 -> "V"

(***************************************************************************)
(* Feature and model constructors (keys exactly as the schema names them)  *)
(***************************************************************************)
TUniform(t, op) == ("model" :> "uniform") @@ ("temperature" :> t) @@ ("operation" :> op)
CUniform(cs, op) == ("model" :> "uniform") @@ ("compositions" :> cs) @@ ("operation" :> op)
CUniformF(cs, fr, op) == CUniform(cs, op) @@ ("fractions" :> fr)
VUniform(v) == ("model" :> "uniform raw") @@ ("velocity" :> v)
GUniform(cs, mats, sizes) == ("model" :> "uniform") @@ ("compositions" :> cs)
                               @@ ("rotation matrices" :> mats) @@ ("grain sizes" :> sizes)

Mat(k) == << <<k, k+1, k+2>>, <<k+3, k+4, k+5>>, <<k+6, k+7, k+8>> >>

Area(model, name, coords, mind, maxd, tm, cm, gm, vm) ==
     ("model" :> model) @@ ("name" :> name) @@ ("coordinates" :> coords)
  @@ ("min depth" :> mind) @@ ("max depth" :> maxd)
  @@ ("temperature models" :> tm) @@ ("composition models" :> cm)
  @@ ("grains models" :> gm) @@ ("velocity models" :> vm)

Segment(len, thick, trunc, angle) ==
     ("length" :> len) @@ ("thickness" :> thick) @@ ("top truncation" :> trunc) @@ ("angle" :> angle)

Line(model, name, coords, dip, mind, maxd, segs, tm, cm, gm, vm) ==
     ("model" :> model) @@ ("name" :> name) @@ ("coordinates" :> coords) @@ ("dip point" :> dip)
  @@ ("min depth" :> mind) @@ ("max depth" :> maxd) @@ ("segments" :> segs)
  @@ ("temperature models" :> tm) @@ ("composition models" :> cm)
  @@ ("grains models" :> gm) @@ ("velocity models" :> vm)

Plume(name, coords, depths, axes, ecc, rot, mind, maxd, tm, cm, gm, vm) ==
     ("model" :> "plume") @@ ("name" :> name) @@ ("coordinates" :> coords)
  @@ ("cross section depths" :> depths) @@ ("semi-major axis" :> axes)
  @@ ("eccentricity" :> ecc) @@ ("rotation angles" :> rot)
  @@ ("min depth" :> mind) @@ ("max depth" :> maxd)
  @@ ("temperature models" :> tm) @@ ("composition models" :> cm)
  @@ ("grains models" :> gm) @@ ("velocity models" :> vm)

Cartesian == ("model" :> "cartesian")
Spherical(method) == ("model" :> "spherical") @@ ("depth method" :> method)

World(cs, feats) == ("version" :> "1.1") @@ ("coordinate system" :> cs) @@ ("features" :> feats)

Rect(x0, y0, x1, y1) == << <<x0, y0>>, <<x1, y0>>, <<x1, y1>>, <<x0, y1>> >>
=============================================================================
