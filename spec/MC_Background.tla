---- MODULE MC_Background ----
EXTENDS Background
ASSUME MechRefinesProp
====
