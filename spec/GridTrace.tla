----------------------------- MODULE GridTrace -----------------------------
(***************************************************************************)
(* Trace validation of the meshes the real gwb-grid writes (direction B).  *)
(* The driver reads each VTU file, recovers every node's lattice indices   *)
(* (exactly, the grid parameters are integral) and replays the mesh as     *)
(* events; TLC judges them with Grid.tla's predicates and collects the     *)
(* deviations:                                                             *)
(*   Grid(config, nt)   Node(id, ijk, dk, tag)   Cell(nodes, type, offset) *)
(*   Filter(include, kept)   End                                           *)
(***************************************************************************)
EXTENDS Grid, IOUtils

TraceLog == ndJsonDeserialize(IOEnv.TRACE)

VARIABLES l, g, nt, nodes, seenijk, cells, celltags, dev
tvars == <<l, g, nt, nodes, seenijk, cells, celltags, dev>>

TInit == /\ l = 1 /\ g = [type |-> "none", dim |-> 2, nx |-> 1, ny |-> 1, nz |-> 1] /\ nt = 0
         /\ nodes = <<>> /\ seenijk = {} /\ cells = {} /\ celltags = <<>> /\ dev = <<>>
         /\ cfg = CHOOSE c \in Configs : TRUE
IsEvent(e) == l <= Len(TraceLog) /\ TraceLog[l].e = e /\ l' = l + 1
Bad(kind, detail) == Append(dev, [line |-> l, kind |-> kind, config |-> g, detail |-> detail])

TGrid == /\ IsEvent("Grid")
         /\ g' = [type |-> TraceLog[l].type, dim |-> TraceLog[l].dim, nx |-> TraceLog[l].nx, ny |-> TraceLog[l].ny, nz |-> TraceLog[l].nz]
         /\ nt' = TraceLog[l].nt
         /\ nodes' = <<>> /\ seenijk' = {} /\ cells' = {} /\ celltags' = <<>> /\ UNCHANGED dev

(* nodes arrive in id order 0, 1, 2, ... ; nodes[id + 1] = [ijk, tag] *)
TNode == /\ IsEvent("Node")
         /\ LET e == TraceLog[l]
                ok == /\ e.id = Len(nodes)
                      /\ (Structured(g) => /\ InBox(g, nt, e.ijk)
                                           /\ e.ijk \notin seenijk                      \* no duplicate node
                                           /\ e.dk = g.nz - e.ijk[3])                   \* Depth = distance below the top
            IN /\ dev' = IF ok THEN dev ELSE Bad("node", <<e.id, e.ijk, e.dk>>)
               /\ nodes' = Append(nodes, [ijk |-> e.ijk, tag |-> e.tag])
               /\ seenijk' = seenijk \cup {e.ijk}
         /\ UNCHANGED <<g, nt, cells, celltags>>

TCell == /\ IsEvent("Cell")
         /\ LET e == TraceLog[l]
                exist == \A p \in 1..Len(e.nodes) : e.nodes[p] >= 0 /\ e.nodes[p] < Len(nodes)
                corners == [p \in 1..Len(e.nodes) |-> nodes[e.nodes[p] + 1].ijk]
                shape == /\ e.type = (IF g.dim = 2 THEN 9 ELSE 12)
                         /\ e.offset = (Len(celltags) + 1) * (IF g.dim = 2 THEN 4 ELSE 8)
                         /\ Len(e.nodes) = (IF g.dim = 2 THEN 4 ELSE 8)
                ok == exist /\ shape /\ (Structured(g) => (Len(nodes) = NodeCount(g, nt)        \* every lattice node is present
                                                            /\ CellOK(g, nt, corners)
                                                            /\ CellKey(corners) \notin cells))   \* no unit cell twice
            IN /\ dev' = IF ok THEN dev ELSE Bad("cell", e.nodes)
               /\ cells' = IF exist THEN cells \cup {CellKey(corners)} ELSE cells
               /\ celltags' = Append(celltags, IF exist THEN {nodes[e.nodes[p] + 1].tag : p \in 1..Len(e.nodes)} ELSE {-1})
         /\ UNCHANGED <<g, nt, nodes, seenijk>>

TFilter == /\ IsEvent("Filter")
           /\ LET e == TraceLog[l]
                  want == Kept(celltags, {e.include[p] : p \in 1..Len(e.include)})
                  got == {e.kept[p] : p \in 1..Len(e.kept)}
              IN dev' = IF got = want /\ Len(e.kept) = Cardinality(got) /\ e.unmapped = 0 THEN dev
                        ELSE Bad("filter", [include |-> e.include, got |-> e.kept, want |-> SetToSeq(want), unmapped |-> e.unmapped])
           /\ UNCHANGED <<g, nt, nodes, seenijk, cells, celltags>>

TEnd == /\ IsEvent("End")
        /\ dev' = IF Structured(g) => Cardinality(cells) = CellCount(g, nt) /\ Len(nodes) = NodeCount(g, nt) THEN dev
                  ELSE Bad("counts", <<Len(nodes), Cardinality(cells)>>)
        /\ UNCHANGED <<g, nt, nodes, seenijk, cells, celltags>>

TNext == (TGrid \/ TNode \/ TCell \/ TFilter \/ TEnd) /\ UNCHANGED cfg
TraceSpec == TInit /\ [][TNext]_<<cfg, tvars>>
Consumed == l <= Len(TraceLog) \/ PrintT(<<"D", ToJson(dev)>>)
TraceAccepted == TLCGet("stats").diameter - 1 = Len(TraceLog)
=============================================================================
