------------------------------ MODULE DatTrace ------------------------------
(***************************************************************************)
(* Trace validation of the real gwb-dat (direction B).  The tool's stdout   *)
(* for every configuration of Dat.tla is tokenised into events              *)
(*   Run(config)  Header(tokens)  Row(index, tokens)  End(exit code)        *)
(* and TLC judges each event against Dat.tla's Prop layer: the header must  *)
(* be PropHeader(config); each row must have one token per header name and  *)
(* echo its input fields.  Deviations are collected (not fatal) so that one *)
(* deviation does not hide the rest of the trace; the cell VALUES are       *)
(* compared by the driver against the library's reply at PropSlots.         *)
(***************************************************************************)
EXTENDS Dat, IOUtils

TraceLog == ndJsonDeserialize(IOEnv.TRACE)

VARIABLES l, run, dev
tvars == <<l, run, dev>>

TInit == l = 1 /\ run = [dim |-> 0] /\ dev = <<>> /\ cfg = CHOOSE c \in Configs : TRUE
IsEvent(e) == l <= Len(TraceLog) /\ TraceLog[l].e = e /\ l' = l + 1
Cfg(r) == [dim |-> r.dim, nc |-> r.nc, ngc |-> r.ngc, ng |-> r.ng, conv |-> r.conv, comma |-> r.comma, wsph |-> r.wsph, layout |-> r.layout, sci |-> r.sci, remark |-> r.remark]

TRun == IsEvent("Run") /\ run' = Cfg(TraceLog[l]) /\ UNCHANGED dev
THeader == /\ IsEvent("Header")
           /\ dev' = IF TraceLog[l].tokens = PropHeader(run) THEN dev
                     ELSE Append(dev, [line |-> l, kind |-> "header", config |-> run, got |-> TraceLog[l].tokens, want |-> PropHeader(run)])
           /\ UNCHANGED run
TRow == /\ IsEvent("Row")
        /\ LET t == TraceLog[l].tokens
               want == RowFields(run, TraceLog[l].i)
               shape == Len(t) = Len(PropHeader(run))
               echo == Len(t) >= Len(want) /\ SubSeq(t, 1, Len(want)) = want
           IN dev' = IF shape /\ echo THEN dev
                     ELSE Append(dev, [line |-> l, kind |-> IF ~echo THEN "row-echo" ELSE "row-shape", config |-> run,
                                       got |-> Len(t), want |-> Len(PropHeader(run))])
        /\ UNCHANGED run
TEnd == /\ IsEvent("End")
        /\ dev' = IF TraceLog[l].rc = 0 /\ TraceLog[l].rows = Len(ProbesKm) THEN dev
                  ELSE Append(dev, [line |-> l, kind |-> "end", config |-> run, got |-> TraceLog[l].rows, want |-> Len(ProbesKm)])
        /\ UNCHANGED run

TNext == (TRun \/ THeader \/ TRow \/ TEnd) /\ UNCHANGED cfg
TraceSpec == TInit /\ [][TNext]_<<cfg, tvars>>
(* all lines must be consumed; the deviations found are printed for the driver *)
Consumed == l <= Len(TraceLog) \/ PrintT(<<"D", ToJson(dev)>>)
TraceAccepted == TLCGet("stats").diameter - 1 = Len(TraceLog)
=============================================================================
