------------------------------ MODULE PoolTrace ------------------------------
(***************************************************************************)
(* Trace validation of the real ThreadPool (direction B): harness/pooltrace *)
(* runs gwb-grid's own parallel_for with a recording functor and logs, per  *)
(* execution, one "Reset" (n, T), one "Slice" per worker thread that ran    *)
(* (first index, last index + 1, number of calls) in index order, and one   *)
(* "Done" (min / max call count per index, total calls).                    *)
(*                                                                         *)
(* Strict = FALSE (the verdict, Prop layer): the trace is accepted iff the  *)
(* observed slices partition [0, n) -- contiguous from 0, non-empty, at     *)
(* most T of them, ending at n -- and every index ran exactly once.  Any    *)
(* slicing with that property is accepted, so a re-tuned slice arithmetic   *)
(* raises no alarm.                                                         *)
(* Strict = TRUE (information, Mech layer): additionally the slices must be *)
(* exactly Ranges(n, T) of Pool.tla, i.e. the code still follows the        *)
(* transcribed mechanism.                                                   *)
(***************************************************************************)
EXTENDS Pool, Json, IOUtils

CONSTANT Strict

TraceLog == ndJsonDeserialize(IOEnv.TRACE)

VARIABLES l, tn, tT, idx, edge      \* edge: end of the last observed slice
tvars == <<l, tn, tT, idx, edge>>

TInit == l = 1 /\ tn = 0 /\ tT = 1 /\ idx = 0 /\ edge = 0
       /\ n = 0 /\ T = 1 /\ mainpc = "done" /\ i = 0 /\ i1 = 0 /\ i2 = 0 /\ workers = <<>> /\ written = <<>>

IsEvent(e) == l <= Len(TraceLog) /\ TraceLog[l].e = e /\ l' = l + 1

TReset == /\ IsEvent("Reset")
          /\ tn' = TraceLog[l].n /\ tT' = TraceLog[l].T /\ idx' = 0 /\ edge' = 0
TSlice == /\ IsEvent("Slice")
          /\ idx < tT                                          \* at most T workers
          /\ TraceLog[l].lo = edge                              \* contiguous, in order, no overlap, no gap
          /\ TraceLog[l].hi > TraceLog[l].lo /\ TraceLog[l].hi <= tn
          /\ TraceLog[l].cnt = TraceLog[l].hi - TraceLog[l].lo  \* the worker ran each of its indices once
          /\ Strict => /\ idx < Len(Ranges(tn, tT))
                       /\ <<TraceLog[l].lo, TraceLog[l].hi>> = Ranges(tn, tT)[idx + 1]
          /\ idx' = idx + 1 /\ edge' = TraceLog[l].hi /\ UNCHANGED <<tn, tT>>
TDone  == /\ IsEvent("Done")
          /\ edge = tn                                          \* the slices cover [0, n)
          /\ Strict => idx = Len(Ranges(tn, tT))
          /\ TraceLog[l].total = tn
          /\ (tn > 0 => TraceLog[l].min = 1 /\ TraceLog[l].max = 1)
          /\ UNCHANGED <<tn, tT, idx, edge>>

TNext == (TReset \/ TSlice \/ TDone) /\ UNCHANGED vars
TraceSpec == TInit /\ [][TNext]_<<vars, tvars>>
TraceAccepted == LET d == TLCGet("stats").diameter IN
                 IF d - 1 = Len(TraceLog) THEN TRUE
                 ELSE Print(<<"REJECTED at line", d, "of", Len(TraceLog)>>, FALSE)
=============================================================================
