------------------------------- MODULE Plume -------------------------------
(***************************************************************************)
(* C04 (plumes) -- a plume contains a point iff min depth <= depth <= max  *)
(* depth and the surface position lies in the ellipse obtained by          *)
(* linearly interpolating centre, semi-major axis, eccentricity and        *)
(* (cyclically, along the shorter arc) rotation angle between the          *)
(* cross-section depths, continued unchanged below the deepest section and *)
(* closed above the shallowest one by a half-ellipsoid reaching up to min  *)
(* depth.                                                                  *)
(*                                                                         *)
(* TLC decides everything discrete exactly: the interval a depth falls in, *)
(* the interpolation fraction (a rational), which of two angles is lifted  *)
(* by 360 degrees, the interpolated centre / axis / eccentricity / angle   *)
(* (rationals).  The ellipse function F (<= 1 inside) is emitted as a      *)
(* symbolic term with the sine and cosine of the rational angle left to    *)
(* the harness; membership is asserted only for |F - 1| > 1e-6.            *)
(***************************************************************************)
EXTENDS Wb, Json, SequencesExt

CONSTANTS MaxSections, Sph, AngleSet,
          West,       \* TRUE: the shift is to the west (configuration files cannot hold negative numbers)
          LonOffAbs   \* spherical only: every longitude of the table and of the probes is shifted by LonOff / 100 degrees
                      \* (the ellipse then crosses the +-180 meridian, or its centres are written beyond it)

Centres == {<<0, 0>>, <<20, 10>>}          \* km (or 1/100 degree)
Axes    == {50, 30}                        \* km (or 1/100 degree)
Eccs    == {6, 8}                          \* tenths: 0.6 -> b = 0.8 a, 0.8 -> b = 0.6 a
SectionDepths == <<40, 80, 120>>           \* km
CONSTANT MinDepth                          \* km: 10 (above the first cross section: the plume has a head) or 60 (below it: no head, and
                                           \* the part of the table above the min depth does not belong to the plume)
MaxDepth == 150

Section == [c : Centres, a : Axes, e : Eccs, ang : AngleSet]

LonOff == IF West THEN -LonOffAbs ELSE LonOffAbs

(***************************************************************************)
(* Prop: interpolated ellipse at a depth                                   *)
(***************************************************************************)
Abs(x) == IF x < 0 THEN -x ELSE x
(* lift the smaller angle by a full turn when the direct way is the long way round *)
Lifted(a1, a2) == IF Abs(a2 - a1) > 180 THEN (IF a2 > a1 THEN <<a1 + 360, a2>> ELSE <<a1, a2 + 360>>) ELSE <<a1, a2>>
Ambiguous(t) == \E i \in 1..(Len(t) - 1) : Abs(t[i + 1].ang - t[i].ang) = 180

(* Lerp with fraction num/den: ((den - num) * u + num * v) / den, as Rat *)
Lerp(u, v, num, den) == Rat((den - num) * u + num * v, den)

(* the ellipse <<cx, cy, a, e10, ang>> (all Rat or int; e10 in tenths) at depth d (km, integer), plus the
   vertical term of the cap: <<z, c>> or <<0, 1>> *)
EllipseAt(t, d) ==
  LET n == Len(t) IN
  IF d < SectionDepths[1]
  THEN [cx |-> t[1].c[1], cy |-> t[1].c[2], a |-> t[1].a, e |-> t[1].e, ang |-> t[1].ang,
        z |-> SectionDepths[1] - d, c |-> IF SectionDepths[1] > MinDepth THEN SectionDepths[1] - MinDepth ELSE 1, branch |-> "cap"]
  ELSE IF d >= SectionDepths[n]
  THEN [cx |-> t[n].c[1], cy |-> t[n].c[2], a |-> t[n].a, e |-> t[n].e, ang |-> t[n].ang, z |-> 0, c |-> 1, branch |-> "below"]
  ELSE LET i == CHOOSE j \in 1..(n - 1) : SectionDepths[j] <= d /\ d < SectionDepths[j + 1]
           num == d - SectionDepths[i]
           den == SectionDepths[i + 1] - SectionDepths[i]
           la == Lifted(t[i].ang, t[i + 1].ang)
       IN [cx |-> Lerp(t[i].c[1], t[i+1].c[1], num, den), cy |-> Lerp(t[i].c[2], t[i+1].c[2], num, den),
           a |-> Lerp(t[i].a, t[i+1].a, num, den), e |-> Lerp(t[i].e, t[i+1].e, num, den),
           ang |-> Lerp(la[1], la[2], num, den), z |-> 0, c |-> 1, branch |-> "between"]

Sq(x) == Mul(x, x)
V(n) == [op |-> "var", name |-> n]
(* F for the surface point held in row cells $4, $5 and the ellipse bound by the step's "let" *)
FTemplate ==
  LET th == Rad(Sub(90, V("ang")))               \* angle from north, clockwise -> mathematical angle
      dx == Sub(V("$4"), V("cx"))  dy == Sub(V("$5"), V("cy"))
      xr == Add(Mul(dx, Cos(th)), Mul(dy, Sin(th)))
      yr == Sub(Mul(dy, Cos(th)), Mul(dx, Sin(th)))
      e  == Div(V("e10"), 10)
      b2 == Mul(Sq(V("a")), Sub(1, Sq(e)))
  IN Add(Add(Div(Sq(xr), Sq(V("a"))), Div(Sq(yr), b2)), Div(Sq(V("z")), Sq(V("c"))))

Outside == 2      \* a value of F that means "not in the depth range"
InRange(d) == d >= MinDepth /\ d <= MaxDepth

(***************************************************************************)
(* Rendering and probes                                                    *)
(***************************************************************************)
HM == 500 * Km
R == 6371000
U(x) == IF Sph THEN Rat(x, 100) ELSE x * Km
Doc(t) ==
  World(IF Sph THEN Spherical("begin segment") ELSE Cartesian,
        << Plume("plume", [i \in 1..Len(t) |-> <<U(t[i].c[1] + (IF Sph THEN LonOff ELSE 0)), U(t[i].c[2])>>],
                 [i \in 1..Len(t) |-> SectionDepths[i] * Km], [i \in 1..Len(t) |-> U(t[i].a)],
                 [i \in 1..Len(t) |-> Rat(t[i].e, 10)], [i \in 1..Len(t) |-> t[i].ang],
                 MinDepth * Km, MaxDepth * Km, <<>>, <<CUniform(<<1>>, "replace")>>, <<>>, <<>>) >>)

ProbeXY == {<<x, y>> : x, y \in {-45, -30, -10, 0, 15, 25, 40, 60}}
ProbeDepths(n) == {5, 10, 12, 25, 39, 40, 150, 151, 130, 59, 61} \cup (IF n >= 2 THEN {50, 53, 60, 70, 77, 80} ELSE {})
                    \cup (IF n >= 3 THEN {90, 100, 104, 110, 119, 120} ELSE {})

Row(p, d) == IF Sph THEN <<R - d * Km, Rat(p[1] + LonOff, 100), Rat(p[2], 100), d * Km, p[1], p[2]>>
                    ELSE <<p[1] * Km, p[2] * Km, HM - d * Km, d * Km, p[1], p[2]>>

(* one query table per depth: the ellipse of that depth is bound once, F is evaluated per row *)
DepthTable(t, d) ==
  LET el == EllipseAt(t, d)
      ps == SetToSeq(ProbeXY) IN
  [op |-> "qtable", h |-> 1, dim |-> 3, sph |-> Sph, props |-> <<PC(1), PTag>>,
   let |-> << <<"cx", el.cx>>, <<"cy", el.cy>>, <<"a", el.a>>, <<"e10", el.e>>, <<"ang", el.ang>>, <<"z", el.z>>, <<"c", el.c>> >>,
   rowlet |-> << <<"F", IF InRange(d) THEN FTemplate ELSE Outside>> >>,
   checks |-> <<[k |-> "member", at |-> 0, col |-> 6, inside |-> 1, outside |-> 0, margin |-> Dec(1, -6)],
                [k |-> "member", at |-> 1, col |-> 6, tagname |-> "plume", margin |-> Dec(1, -6)]>>,
   rows |-> [i \in 1..Len(ps) |-> Row(ps[i], d)]]

Behaviour(t) ==
  LET ds == SetToSeq(ProbeDepths(Len(t))) IN
  [id |-> <<"plume", t, LonOff, MinDepth>>, labels |-> <<"plume-extent", "min-depth-" \o ToString(MinDepth), "n" \o ToString(Len(t)), IF Sph THEN "spherical" ELSE "cartesian", "lon-offset-" \o ToString(LonOff)>>,
   steps |-> <<[op |-> "create", h |-> 1, wb |-> Doc(t)]>> \o [i \in 1..Len(ds) |-> DepthTable(t, ds[i])]]

VARIABLE table
Init == table \in {<<s>> : s \in Section}
Next == Len(table) < MaxSections /\ \E s \in Section : table' = Append(table, s)

(* the oracle's own sanity: the lifted pair is at most half a turn apart, and lifting changes an angle by a full turn only *)
LiftOK == \A i \in 1..(Len(table) - 1) :
             LET la == Lifted(table[i].ang, table[i + 1].ang) IN
             /\ Abs(la[2] - la[1]) <= 180
             /\ (la[1] - table[i].ang) \in {0, 360} /\ (la[2] - table[i + 1].ang) \in {0, 360}
Emit == Ambiguous(table) \/ PrintT(<<"B", ToJson(Behaviour(table))>>)
=============================================================================
