------------------------------- MODULE Paint -------------------------------
(***************************************************************************)
(* C02 / C03 -- the answer at a point is the background, painted over in   *)
(* file order by exactly the features whose extent contains the point.     *)
(*                                                                         *)
(* Abstract world: a sequence of features from a catalogue.  A feature is  *)
(* [type, ext, ma, tag]: its type, whether it covers the probe ("cover"),  *)
(* misses it horizontally ("hmiss") or in depth ("dmiss"), its model       *)
(* assignment (temperature / composition / grains / velocity, each absent  *)
(* or a uniform model with an operation) and its tag string.               *)
(*                                                                         *)
(* Prop: Answer = fold over the covering features, starting from the       *)
(* background.  All values are small integers or dyadic fractions and the  *)
(* worlds are rendered with thermal expansion 0, so every expected value   *)
(* is exact in binary64 and compared with ==.                              *)
(*                                                                         *)
(* The machine builds the feature list one feature per step; every state   *)
(* is a world that is rendered, built and queried at the covered probe and *)
(* at a probe outside everything (background, C03).                        *)
(***************************************************************************)
EXTENDS Wb, Json, SequencesExt

CONSTANTS MaxFeatures,      \* longest feature list
          Full              \* TRUE: full catalogue at every position; FALSE: reduced catalogue after the first feature

Types == {"continental plate", "oceanic plate", "mantle layer", "plume", "subducting plate", "fault"}
IsLine(t) == t \in {"subducting plate", "fault"}

None == [k |-> "none"]
TM(v, o) == [k |-> "uniform", v |-> v, op |-> o]
CM(cs, o) == [k |-> "uniform", cs |-> cs, op |-> o]
GM(m) == [k |-> "uniform", m |-> m]
(* two grains models of one feature for different composition labels: <<label of the first, label of the second>>; the model for label 0 is m *)
GM2(m, first0) == [k |-> "two", m |-> m, first0 |-> first0]
VM(v) == [k |-> "uniform", v |-> v]

TOps == {"replace", "add", "subtract"}
COps == {"replace", "replace defined only", "add", "subtract"}

(* model assignments: the temperature and the composition models of a feature are LISTS, applied in order; vary one
   kind at a time, plus one with everything, plus lists of two models (the second one sees what the first one left) *)
MA(t, c, g, v) == [t |-> t, c |-> c, g |-> g, v |-> v]
TVariants == {MA(<<TM(v, o)>>, <<>>, None, None) : v \in {100, 300}, o \in TOps}
CVariants == {MA(<<>>, <<CM(cs, o)>>, None, None) : cs \in {<<0>>, <<1>>, <<0, 1>>}, o \in COps}
GVariants == {MA(<<>>, <<>>, GM(m), None) : m \in {1, 2}} \cup {MA(<<>>, <<>>, GM2(2, b), None) : b \in BOOLEAN}
TwoModels == { MA(<<TM(100, "replace"), TM(30, "add")>>, <<>>, None, None), MA(<<TM(100, "add"), TM(300, "replace")>>, <<>>, None, None),
               MA(<<TM(40, "subtract"), TM(20, "subtract")>>, <<>>, None, None),
               MA(<<>>, <<CM(<<0>>, "add"), CM(<<0, 1>>, "replace defined only")>>, None, None),
               MA(<<>>, <<CM(<<0, 1>>, "add"), CM(<<1>>, "replace")>>, None, None),
               MA(<<>>, <<CM(<<1>>, "replace"), CM(<<0>>, "subtract")>>, None, None) }
FullMA    == MA(<<TM(500, "replace")>>, <<CM(<<1>>, "replace")>>, GM(2), VM(<<4, 5, 6>>))
EmptyMA   == MA(<<>>, <<>>, None, None)
Assignments == TVariants \cup CVariants \cup GVariants \cup TwoModels \cup {FullMA, EmptyMA}

Feat(ty, ext, ma, tag) == [type |-> ty, ext |-> ext, ma |-> ma, tag |-> tag]
Catalogue ==    {Feat(ty, "cover", ma, "") : ty \in Types, ma \in Assignments}
           \cup {Feat(ty, "cover", FullMA, tg) : ty \in Types, tg \in {"A", "B"}}
           \cup {Feat(ty, e, FullMA, "X") : ty \in Types, e \in {"hmiss", "dmiss"}}
Reduced ==      {Feat(ty, "cover", ma, "") : ty \in Types,
                      ma \in {MA(<<TM(100, o)>>, <<>>, None, None) : o \in TOps}
                         \cup {MA(<<>>, <<CM(<<0>>, o)>>, None, None) : o \in COps} \cup {EmptyMA}}
           \cup {Feat(ty, e, FullMA, "X") : ty \in {"oceanic plate", "fault"}, e \in {"hmiss", "dmiss"}}

(***************************************************************************)
(* Prop: the fold                                                          *)
(***************************************************************************)
Tp == 1600
Covers(f) == f.ext = "cover"

ApplyOp(op, old, new) == CASE op \in {"replace", "replace defined only"} -> new
                           [] op = "add" -> old + new
                           [] op = "subtract" -> old - new

(* temperature, in kelvin *)
RECURSIVE PaintTs(_, _, _)
PaintTs(ms, k, old) == IF k > Len(ms) THEN old ELSE PaintTs(ms, k + 1, ApplyOp(ms[k].op, old, ms[k].v))
PaintT(f, old) == PaintTs(f.ma.t, 1, old)

(* composition i, in quarters (fractions are 1 for a single composition, 1/4 and 3/4 for <<0,1>>) *)
Quarter(cs, i) == IF Len(cs) = 1 THEN 4 ELSE IF i = 0 THEN 1 ELSE 3
Listed(cs, i) == \E j \in 1..Len(cs) : cs[j] = i
PaintC1(m, i, old) ==
  IF Listed(m.cs, i) THEN ApplyOp(m.op, old, Quarter(m.cs, i))
  ELSE IF m.op = "replace" THEN 0             \* replace clears the compositions it does not list
  ELSE old
RECURSIVE PaintCs(_, _, _, _)
PaintCs(ms, k, i, old) == IF k > Len(ms) THEN old ELSE PaintCs(ms, k + 1, i, PaintC1(ms[k], i, old))
PaintC(f, i, old) == PaintCs(f.ma.c, 1, i, old)

(* grains of composition 0, one grain: 0 = untouched background (all zero), m = uniform model m *)
PaintG(f, old) == IF f.ma.g.k = "none" THEN old ELSE f.ma.g.m

TagName(f) == IF f.tag = "" THEN f.type ELSE f.tag

RECURSIVE Fold(_, _, _)
Fold(w, i, acc) ==
  IF i > Len(w) THEN acc
  ELSE IF ~Covers(w[i]) THEN Fold(w, i + 1, acc)
  ELSE Fold(w, i + 1, [t |-> PaintT(w[i], acc.t), c0 |-> PaintC(w[i], 0, acc.c0), c1 |-> PaintC(w[i], 1, acc.c1),
                       c2 |-> PaintC(w[i], 2, acc.c2), g |-> PaintG(w[i], acc.g), tag |-> TagName(w[i]),
                       last |-> i])
Background == [t |-> Tp, c0 |-> 0, c1 |-> 0, c2 |-> 0, g |-> 0, tag |-> "", last |-> 0]
Answer(w) == Fold(w, 1, Background)

(* theorems about the oracle itself (checked as invariants on every state) *)
NonCovering(w) == {i \in 1..Len(w) : ~Covers(w[i])}
Without(w, i) == SubSeq(w, 1, i - 1) \o SubSeq(w, i + 1, Len(w))
Observable(a) == [t |-> a.t, c0 |-> a.c0, c1 |-> a.c1, c2 |-> a.c2, g |-> a.g, tag |-> a.tag]
LocalityOK(w) == \A i \in NonCovering(w) : Observable(Answer(Without(w, i))) = Observable(Answer(w))
MoveOK(w) == \A i \in NonCovering(w), j \in 0..(Len(w) - 1) :
                LET rest == Without(w, i)
                    moved == SubSeq(rest, 1, j) \o <<w[i]>> \o SubSeq(rest, j + 1, Len(rest))
                IN Observable(Answer(moved)) = Observable(Answer(w))
TagIsLastCovering(w) == LET a == Answer(w) IN
                          IF a.last = 0 THEN a.tag = "" ELSE a.tag = TagName(w[a.last]) /\ \A j \in (a.last+1)..Len(w) : ~Covers(w[j])
AddSubCancel == \A ty \in Types, v \in {100, 300} :
                  Answer(<<Feat(ty, "cover", MA(<<TM(v, "add")>>, <<>>, None, None), ""),
                           Feat(ty, "cover", MA(<<TM(v, "subtract")>>, <<>>, None, None), "")>>).t = Tp
ReplaceForgets == \A f \in Catalogue, ty \in Types :
                  Answer(<<f, Feat(ty, "cover", FullMA, "")>>).t = 500

(***************************************************************************)
(* Rendering.  The covered probe is (250 km, 250 km) at depth 50 km, the   *)
(* outside probe (1500 km, 1500 km).                                       *)
(***************************************************************************)
H == 1000 * Km
RotZ == << <<0, -1, 0>>, <<1, 0, 0>>, <<0, 0, 1>> >>       \* proper rotations (slab/fault average through quaternions)
RotX == << <<1, 0, 0>>, <<0, 0, -1>>, <<0, 1, 0>> >>
GMat(m) == IF m = 1 THEN RotZ ELSE RotX
GSize(m) == IF m = 1 THEN Dec(5, -1) ELSE Dec(25, -2)

RenderT(ma) == [k \in 1..Len(ma.t) |-> TUniform(ma.t[k].v, ma.t[k].op)]
RenderC(ma) == [k \in 1..Len(ma.c) |-> IF Len(ma.c[k].cs) = 1 THEN CUniform(ma.c[k].cs, ma.c[k].op)
                                       ELSE CUniformF(ma.c[k].cs, <<Dec(25, -2), Dec(75, -2)>>, ma.c[k].op)]
RenderG(ma) == CASE ma.g.k = "none" -> <<>>
                 [] ma.g.k = "uniform" -> <<GUniform(<<0>>, <<GMat(ma.g.m)>>, <<GSize(ma.g.m)>>)>>
                 [] OTHER -> LET own == GUniform(<<0>>, <<GMat(ma.g.m)>>, <<GSize(ma.g.m)>>)
                                 other == GUniform(<<1>>, <<GMat(3 - ma.g.m)>>, <<GSize(3 - ma.g.m)>>)      \* a model for label 1 only
                             IN IF ma.g.first0 THEN <<own, other>> ELSE <<other, own>>
RenderV(ma) == IF ma.v.k = "none" THEN <<>> ELSE <<VUniform(ma.v.v)>>

Render(f, n) ==
  LET nm == "f" \o ToString(n)
      body ==
        CASE f.type \in {"continental plate", "oceanic plate", "mantle layer"} ->
               Area(f.type, nm,
                    IF f.ext = "hmiss" THEN Rect(600*Km, 0, 900*Km, 500*Km) ELSE Rect(0, 0, 500*Km, 500*Km),
                    IF f.ext = "dmiss" THEN 60*Km ELSE 0, 100*Km,
                    RenderT(f.ma), RenderC(f.ma), RenderG(f.ma), RenderV(f.ma))
          [] f.type = "plume" ->
               Plume(nm, IF f.ext = "hmiss" THEN <<<<750*Km, 250*Km>>, <<750*Km, 250*Km>>>> ELSE <<<<250*Km, 250*Km>>, <<250*Km, 250*Km>>>>,
                     IF f.ext = "dmiss" THEN <<70*Km, 90*Km>> ELSE <<20*Km, 80*Km>>, <<100*Km, 100*Km>>, <<0, 0>>, <<0, 0>>,
                     IF f.ext = "dmiss" THEN 60*Km ELSE 10*Km, 100*Km,
                     RenderT(f.ma), RenderC(f.ma), RenderG(f.ma), RenderV(f.ma))
          [] f.type = "subducting plate" ->
               Line(f.type, nm, IF f.ext = "hmiss" THEN <<<<700*Km, -100*Km>>, <<700*Km, 600*Km>>>> ELSE <<<<220*Km, -100*Km>>, <<220*Km, 600*Km>>>>,
                    <<1000*Km, 0>>, 0, IF f.ext = "dmiss" THEN 40*Km ELSE 600*Km,
                    <<Segment(300*Km, <<100*Km>>, <<0>>, <<45>>)>>,
                    RenderT(f.ma), RenderC(f.ma), RenderG(f.ma), RenderV(f.ma))
          [] f.type = "fault" ->
               Line(f.type, nm, IF f.ext = "hmiss" THEN <<<<700*Km, -100*Km>>, <<700*Km, 600*Km>>>> ELSE <<<<250*Km, -100*Km>>, <<250*Km, 600*Km>>>>,
                    <<1000*Km, 0>>, 0, IF f.ext = "dmiss" THEN 40*Km ELSE 600*Km,
                    <<Segment(200*Km, <<50*Km>>, <<0>>, <<90>>)>>,
                    RenderT(f.ma), RenderC(f.ma), RenderG(f.ma), RenderV(f.ma))
  IN body @@ Opt(f.tag # "", "tag" :> f.tag)

Doc(w) == World(Cartesian, [n \in 1..Len(w) |-> Render(w[n], n)])
            @@ ("thermal expansion coefficient" :> 0) @@ ("potential mantle temperature" :> Tp)

GBlock(g) == IF g = 0 THEN <<0, 0, 0, 0, 0, 0, 0, 0, 0, 0>>
             ELSE <<GSize(g)>> \o GMat(g)[1] \o GMat(g)[2] \o GMat(g)[3]

Quarters(q) == Rat(q, 4)

(* covering line features average grains through quaternions even for identical sections:
   compare grains with a tolerance then, exactly otherwise *)
LineCovers(w) == \E i \in 1..Len(w) : Covers(w[i]) /\ IsLine(w[i].type)
LastV(w) == LET a == Answer(w) IN IF a.last = 0 THEN <<0, 0, 0>> ELSE
              IF w[a.last].ma.v.k = "uniform" THEN w[a.last].ma.v.v ELSE <<>>

Props == <<PT, PC(0), PC(1), PC(2), PG(0, 1), PTag, PV>>

Behaviour(w) ==
  LET a == Answer(w)
      lv == LastV(w)
      labels == <<"paint", "n" \o ToString(Len(w)), "last:" \o (IF a.last = 0 THEN "none" ELSE w[a.last].type)>>
                \o (IF LineCovers(w) THEN <<"line-covers">> ELSE <<>>)
                \o (IF \E i \in 1..Len(w) : Len(w[i].ma.t) = 2 \/ Len(w[i].ma.c) = 2 THEN <<"two-models-of-a-kind">> ELSE <<>>)
                \o (IF \E i \in 1..Len(w) : Covers(w[i]) /\ IsLine(w[i].type) /\ w[i].ma.g.k = "none" THEN <<"line-without-grains-covers">> ELSE <<>>)
  IN
  [id |-> <<"paint", w>>, labels |-> labels,
   steps |-> <<
     [op |-> "create", h |-> 1, wb |-> Doc(w)],
     [op |-> "q", h |-> 1, dim |-> 3, p |-> <<250*Km, 250*Km, H - 50*Km>>, depth |-> 50*Km, props |-> Props,
      expect |-> << [k |-> "len", n |-> Total(Props)],
                    [k |-> "eq", at |-> 0, v |-> <<a.t, Quarters(a.c0), Quarters(a.c1), Quarters(a.c2)>>],
                    IF LineCovers(w) THEN [k |-> "tol", at |-> 4, v |-> GBlock(a.g), rel |-> 0, abs |-> Dec(1, -12)]
                                     ELSE [k |-> "eq", at |-> 4, v |-> GBlock(a.g)],
                    [k |-> "tag", at |-> 14, name |-> IF a.last = 0 THEN FALSE ELSE a.tag] >>
                 \o (IF lv # <<>> THEN <<[k |-> "eq", at |-> 15, v |-> lv]>> ELSE <<>>)],
     \* C03: outside every feature the background comes back
     [op |-> "q", h |-> 1, dim |-> 3, p |-> <<1500*Km, 1500*Km, H - 50*Km>>, depth |-> 50*Km, props |-> Props,
      expect |-> << [k |-> "eq", at |-> 0, v |-> <<Tp, 0, 0, 0>> \o GBlock(0)],
                    [k |-> "tag", at |-> 14, name |-> FALSE],
                    [k |-> "eq", at |-> 15, v |-> <<0, 0, 0>>] >>]
   >>]

(***************************************************************************)
(* Every KIND of composition model obeys its operation for the labels it   *)
(* does not list.  A covering mantle layer paints compositions 0, 1, 2     *)
(* with 1/4, 1/2, 3/4; then a feature with one composition model of a kind *)
(* its type offers (uniform, smooth, tian water content, random), listing  *)
(* label 0 only.  Prop: label 1 and 2 come back 0 under "replace" and      *)
(* unchanged under every other operation.  (The value of the listed label  *)
(* is the model's own business -- C05, C15.)                               *)
(***************************************************************************)
CKinds(ty) == CASE ty = "continental plate" -> {"uniform", "random"}
                [] ty = "oceanic plate" -> {"uniform", "tian water content"}
                [] ty = "subducting plate" -> {"uniform", "smooth", "tian water content"}
                [] ty = "fault" -> {"uniform", "smooth"}
                [] OTHER -> {"uniform"}
CModelOf(ty, kind, op) ==
  CASE kind = "uniform" -> CUniform(<<0>>, op)
    [] kind = "random" -> ("model" :> "random") @@ ("compositions" :> <<0>>) @@ ("min value" :> <<Dec(25, -2)>>) @@ ("max value" :> <<Dec(75, -2)>>) @@ ("operation" :> op)
    [] kind = "tian water content" -> ("model" :> "tian water content") @@ ("compositions" :> <<0>>) @@ ("lithology" :> "peridotite")
                                       @@ ("initial water content" :> 2) @@ ("cutoff pressure" :> 10) @@ ("operation" :> op)
    [] kind = "smooth" -> IF ty = "fault"
                          THEN ("model" :> "smooth") @@ ("compositions" :> <<0>>) @@ ("min distance fault center" :> 0) @@ ("side distance fault center" :> 25 * Km)
                               @@ ("center fractions" :> <<1>>) @@ ("side fractions" :> <<Dec(5, -1)>>) @@ ("operation" :> op)
                          ELSE ("model" :> "smooth") @@ ("compositions" :> <<0>>) @@ ("min distance slab top" :> 0) @@ ("max distance slab top" :> 100 * Km)
                               @@ ("top fractions" :> <<1>>) @@ ("bottom fractions" :> <<Dec(5, -1)>>) @@ ("operation" :> op)
ClearCases == {<<ty, kind, op>> \in Types \X {"uniform", "random", "tian water content", "smooth"} \X COps : kind \in CKinds(ty)}
ClearDoc(cs) ==
  LET f == Feat(cs[1], "cover", EmptyMA, "")
      body == Render(f, 2)
  IN World(Cartesian, << Area("mantle layer", "base", Rect(-100*Km, -100*Km, 600*Km, 600*Km), 0, 700*Km, <<>>,
                              <<CUniformF(<<0, 1, 2>>, <<Dec(25, -2), Dec(5, -1), Dec(75, -2)>>, "replace")>>, <<>>, <<>>),
                         [body EXCEPT !["composition models"] = <<CModelOf(cs[1], cs[2], cs[3])>>] >>)
     @@ ("thermal expansion coefficient" :> 0) @@ ("potential mantle temperature" :> Tp)
ClearBehaviour(cs) ==
  LET keep == cs[3] # "replace" IN
  [id |-> <<"paint-clears", cs>>, labels |-> <<"paint", "unlisted-labels", cs[1], cs[2], cs[3]>>,
   steps |-> << [op |-> "create", h |-> 1, wb |-> ClearDoc(cs)],
                [op |-> "q", h |-> 1, dim |-> 3, p |-> <<250*Km, 250*Km, H - 50*Km>>, depth |-> 50*Km, props |-> <<PC(1), PC(2), PTag>>,
                 expect |-> << [k |-> "eq", at |-> 0, v |-> IF keep THEN <<Dec(5, -1), Dec(75, -2)>> ELSE <<0, 0>>],
                               [k |-> "tag", at |-> 2, name |-> cs[1]] >>] >>]
EmitClears == \A cs \in ClearCases : PrintT(<<"B", ToJson(ClearBehaviour(cs))>>)

(***************************************************************************)
(* The machine                                                             *)
(***************************************************************************)
VARIABLE world
Init == world = <<>>
Next == /\ Len(world) < MaxFeatures
        /\ \E f \in (IF Full \/ world = <<>> THEN Catalogue ELSE Reduced) : world' = Append(world, f)

PropTheorems == LocalityOK(world) /\ MoveOK(world) /\ TagIsLastCovering(world)
ConstTheorems == AddSubCancel /\ ReplaceForgets
Emit == world = <<>> \/ PrintT(<<"B", ToJson(Behaviour(world))>>)
=============================================================================
