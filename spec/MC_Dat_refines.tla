---- MODULE MC_Dat_refines ----
EXTENDS Dat
ASSUME AllRefine
====
