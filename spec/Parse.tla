-------------------------------- MODULE Parse --------------------------------
(***************************************************************************)
(* C12 -- malformed or inconsistent input is rejected by an exception,     *)
(* never by a crash; formatting variants build indistinguishable worlds.   *)
(*                                                                         *)
(* Documents = a valid base document (the kitchen-sink world: every        *)
(* feature type, Cartesian or spherical) with one or two MUTATIONS applied *)
(* by the specification itself (path-addressed edits of the string-keyed   *)
(* document), or a byte-level / formatting option tuple applied by a       *)
(* generic re-serialiser.                                                  *)
(*                                                                         *)
(* Prop: every mutation has a class                                        *)
(*   "reject" : violates the published schema or makes list-valued         *)
(*              parameters inconsistent -> construction must throw         *)
(*   "any"    : schema-valid but odd -> builds or throws a std::exception  *)
(*   "same"   : formatting only -> builds, answers bit-identical to base   *)
(* and whatever the class, construction never crashes, hangs or trips a    *)
(* sanitizer (the replay runs under ASan + UBSan).                         *)
(*                                                                         *)
(* Mech: the constructor as a pipeline read -> JSON parse -> is-object ->  *)
(* schema -> version -> coordinate system -> gravity -> features ->        *)
(* cross section -> globals -> per-feature parse_entries, each mutation    *)
(* tagged with the check that stops it and whether that check survives a   *)
(* release build (WBAssertThrow) or not (WBAssert).                        *)
(***************************************************************************)
EXTENDS KS, Json, SequencesExt

CONSTANTS Pairs         \* TRUE: also apply every pair of mutations from the reduced catalogue

Base(sph) == World(IF sph THEN Spherical("begin segment") ELSE Cartesian, KSFeatures(sph))
             @@ ("cross section" :> <<XY(sph, 0, 250), XY(sph, 1000, 250)>>)

(***************************************************************************)
(* Path-addressed edits.  A mutation is [path, kind, key, val].            *)
(*   set      : v[key] := val (adds the key if absent)                     *)
(*   del      : remove key                                                 *)
(*   droplast : drop the last element of the sequence v[key]               *)
(*   append   : append val to the sequence v[key]                          *)
(***************************************************************************)
RECURSIVE Apply(_, _)
Apply(v, m) ==
  IF m.path = <<>>
  THEN CASE m.kind = "set" -> (m.key :> m.val) @@ v
         [] m.kind = "del" -> [k \in (DOMAIN v) \ {m.key} |-> v[k]]
         [] m.kind = "droplast" -> [v EXCEPT ![m.key] = SubSeq(@, 1, Len(@) - 1)]
         [] m.kind = "append" -> [v EXCEPT ![m.key] = Append(@, m.val)]
  ELSE [v EXCEPT ![Head(m.path)] = Apply(@, [m EXCEPT !.path = Tail(@)])]

M(name, path, kind, key, val, class, stage, alwayson) ==
  [name |-> name, path |-> path, kind |-> kind, key |-> key, val |-> val, class |-> class, stage |-> stage, alwayson |-> alwayson]

F(i) == <<"features", i>>
TM1(i) == <<"features", i, "temperature models", 1>>
CM1(i) == <<"features", i, "composition models", 1>>
GM1(i) == <<"features", i, "grains models", 1>>
VM1(i) == <<"features", i, "velocity models", 1>>
SEG1(i) == <<"features", i, "segments", 1>>
AllF == 1..7
Area3 == {1, 2, 3}

RootMutations(sph) ==
  << M("no-version", <<>>, "del", "version", 0, "reject", "schema", TRUE),
    M("no-features", <<>>, "del", "features", 0, "reject", "schema", TRUE),
    M("version-0.9", <<>>, "set", "version", "0.9", "reject", "version", TRUE),
    M("version-1.10", <<>>, "set", "version", "1.10", "reject", "version", TRUE),
    M("version-empty", <<>>, "set", "version", "", "reject", "version", TRUE),
    M("version-number", <<>>, "set", "version", 1, "reject", "schema", TRUE),
    M("unknown-root-key", <<>>, "set", "bogus", 1, "reject", "schema", TRUE),
    M("features-object", <<>>, "set", "features", [a |-> 1], "reject", "schema", TRUE),
    M("tp-string", <<>>, "set", "potential mantle temperature", "hot", "reject", "schema", TRUE),
    M("force-number", <<>>, "set", "force surface temperature", 1, "reject", "schema", TRUE),
    M("cs-unknown", <<>>, "set", "coordinate system", ("model" :> "polar"), "reject", "schema", TRUE),
    M("cs-extra-key", <<"coordinate system">>, "set", "bogus", 1, "reject", "schema", TRUE),
    M("gravity-string", <<>>, "set", "gravity model", (("model" :> "uniform") @@ ("magnitude" :> "ten")), "reject", "schema", TRUE),
    M("gravity-unknown", <<>>, "set", "gravity model", ("model" :> "radial"), "reject", "schema", TRUE),
    M("cross-one-point", <<>>, "set", "cross section", <<<<0, 0>>>>, "reject", "schema", TRUE),
    M("cross-three-points", <<>>, "set", "cross section", <<<<0, 0>>, <<1, 1>>, <<2, 2>>>>, "reject", "schema", TRUE),
    M("cross-3d-point", <<>>, "set", "cross section", <<<<0, 0, 0>>, <<1, 1, 1>>>>, "reject", "schema", TRUE),
    M("cross-identical", <<>>, "set", "cross section", <<<<1, 1>>, <<1, 1>>>>, "any", "none", TRUE),
    M("interpolation-linear", <<>>, "set", "interpolation", "linear", "reject", "features", TRUE),
    M("seed-fraction", <<>>, "set", "random number seed", Dec(15, -1), "reject", "schema", TRUE),
    M("seed-negative", <<>>, "set", "random number seed", -5, "any", "none", TRUE),
    M("maxdist-negative", <<>>, "set", "maximum distance between coordinates", -1, "any", "none", TRUE),
    M("cp-zero", <<>>, "set", "specific heat", 0, "any", "none", TRUE),
    M("features-empty", <<>>, "set", "features", <<>>, "any", "none", TRUE) >>
  \o (IF sph THEN
  << M("depth-method-continuous", <<"coordinate system">>, "set", "depth method", "continuous", "reject", "coordinate system", TRUE),
    M("depth-method-nonsense", <<"coordinate system">>, "set", "depth method", "nonsense", "reject", "schema", TRUE),
    M("depth-method-missing", <<"coordinate system">>, "del", "depth method", 0, "reject", "schema", TRUE),
    M("radius-string", <<"coordinate system">>, "set", "radius", "big", "reject", "schema", TRUE),
    M("radius-zero", <<"coordinate system">>, "set", "radius", 0, "any", "none", TRUE) >> ELSE <<>>)

FeatureMutations ==
     SetToSeq({M("no-model", F(i), "del", "model", 0, "reject", "schema", TRUE) : i \in AllF})
\o SetToSeq({M("unknown-model", F(i), "set", "model", "unknown plate", "reject", "schema", TRUE) : i \in AllF})
\o SetToSeq({M("no-coordinates", F(i), "del", "coordinates", 0, "reject", "features", TRUE) : i \in AllF})
\o SetToSeq({M("coordinates-empty", F(i), "set", "coordinates", <<>>, "reject", "schema", TRUE) : i \in AllF})
\o SetToSeq({M("coordinates-string", F(i), "set", "coordinates", "x", "reject", "schema", TRUE) : i \in AllF})
\o SetToSeq({M("coordinates-3d", F(i), "set", "coordinates", <<<<0, 0, 0>>, <<1, 1, 1>>, <<2, 0, 2>>>>, "reject", "schema", TRUE) : i \in AllF})
\o SetToSeq({M("one-coordinate", F(i), "set", "coordinates", <<<<100000, 100000>>>>, "any", "none", TRUE) : i \in AllF \ {4}})
\o SetToSeq({M("feature-unknown-key", F(i), "set", "bogus", 1, "reject", "schema", TRUE) : i \in AllF})
\o SetToSeq({M("tag-number", F(i), "set", "tag", 5, "reject", "schema", TRUE) : i \in AllF})
\o SetToSeq({M("min-depth-string", F(i), "set", "min depth", "deep", "reject", "schema", TRUE) : i \in AllF})
\o SetToSeq({M("max-depth-negative", F(i), "set", "max depth", -1, "any", "none", TRUE) : i \in AllF})
\o SetToSeq({M("max-depth-huge", F(i), "set", "max depth", Dec(1, 308), "any", "none", TRUE) : i \in AllF})

ModelMutations ==
     SetToSeq({M("tmodel-no-model", TM1(i), "del", "model", 0, "reject", "schema", TRUE) : i \in AllF})
\o SetToSeq({M("tmodel-unknown", TM1(i), "set", "model", "bogus", "reject", "schema", TRUE) : i \in AllF})
\o SetToSeq({M("tmodel-operation", TM1(i), "set", "operation", "multiply", "reject", "schema", TRUE) : i \in 1..6})
\o SetToSeq({M("tmodel-value-string", TM1(i), "set", "temperature", "x", "reject", "schema", TRUE) : i \in 1..6})
\o SetToSeq({M("tmodel-unknown-key", TM1(i), "set", "bogus", 1, "reject", "schema", TRUE) : i \in AllF})
\o SetToSeq({M("cmodel-no-compositions", CM1(i), "del", "compositions", 0, "reject", "schema", TRUE) : i \in AllF})
\o SetToSeq({M("cmodel-fractions-short", CM1(i), "set", "compositions", <<0, 1, 2>>, "reject", "features", TRUE) : i \in AllF})
\o SetToSeq({M("cmodel-fractions-long", CM1(i), "set", "fractions", <<Dec(5, -1), Dec(25, -2), Dec(25, -2)>>, "reject", "features", TRUE) : i \in AllF \ {2}})
\o SetToSeq({M("cmodel-negative-label", CM1(i), "set", "compositions", <<-1>>, "reject", "schema", TRUE) : i \in AllF})
\o SetToSeq({M("cmodel-fraction-label", CM1(i), "set", "compositions", <<Dec(15, -1)>>, "reject", "schema", TRUE) : i \in AllF})
\o SetToSeq({M("cmodel-operation", CM1(i), "set", "operation", "multiply", "reject", "schema", TRUE) : i \in AllF})
\o SetToSeq({M("gmodel-matrices-short", GM1(i), "droplast", "rotation matrices", 0, "reject", "features", TRUE) : i \in {1, 2, 4, 5}})
\o SetToSeq({M("gmodel-sizes-long", GM1(i), "append", "grain sizes", 1, "reject", "features", TRUE) : i \in {1, 2, 4, 5}})
\o SetToSeq({M("gmodel-both-orientations", GM1(i), "set", "Euler angles z-x-z", <<<<1, 2, 3>>>>, "reject", "features", TRUE) : i \in {1, 2, 4, 5}})
\o SetToSeq({M("gmodel-no-orientation", GM1(i), "del", "rotation matrices", 0, "reject", "features", TRUE) : i \in {1, 2, 4, 5}})
\o SetToSeq({M("gmodel-matrix-2x3", GM1(i), "set", "rotation matrices", <<<<<<1, 2, 3>>, <<4, 5, 6>>>>>>, "reject", "schema", TRUE) : i \in {1, 2, 4, 5}})
\o SetToSeq({M("vmodel-two-components", VM1(i), "set", "velocity", <<1, 2>>, "reject", "schema", TRUE) : i \in AllF})
\o SetToSeq({M("vmodel-string", VM1(i), "set", "velocity", "fast", "reject", "schema", TRUE) : i \in AllF})

(* Euler angles instead of rotation matrices, with a list of the wrong length *)
EulerMutations ==
  SetToSeq({M("gmodel-euler-short", GM1(i), "set", "grains-euler", 1, "reject", "features", TRUE) : i \in {1, 2, 4, 5}})

PlumeMutations ==
  << M("plume-depths-long", F(4), "append", "cross section depths", 400000, "reject", "features", TRUE),
    M("plume-depths-short", F(4), "droplast", "cross section depths", 0, "reject", "features", TRUE),
    M("plume-axes-long", F(4), "append", "semi-major axis", 50000, "reject", "features", TRUE),
    M("plume-axes-short", F(4), "droplast", "semi-major axis", 0, "reject", "features", TRUE),
    M("plume-ecc-long", F(4), "append", "eccentricity", 0, "reject", "features", TRUE),
    M("plume-ecc-short", F(4), "droplast", "eccentricity", 0, "reject", "features", TRUE),
    M("plume-rot-long", F(4), "append", "rotation angles", 10, "reject", "features", TRUE),
    M("plume-rot-short", F(4), "droplast", "rotation angles", 0, "reject", "features", TRUE),
    M("plume-coordinates-long", F(4), "append", "coordinates", <<0, 0>>, "reject", "features", TRUE),
    M("plume-depths-descending", F(4), "set", "cross section depths", <<300000, 50000>>, "any", "none", TRUE),
    M("plume-ecc-one", F(4), "set", "eccentricity", <<1, 1>>, "any", "none", TRUE),
    M("plume-axis-zero", F(4), "set", "semi-major axis", <<0, 0>>, "any", "none", TRUE),
    M("plume-depths-string", F(4), "set", "cross section depths", "deep", "reject", "schema", TRUE),
    M("gaussian-consistent", F(4), "set", "temperature models",
      <<("model" :> "gaussian") @@ ("centerline temperatures" :> <<100, 200>>) @@ ("gaussian sigmas" :> <<Dec(3, -1), Dec(3, -1)>>) @@ ("depths" :> <<50000, 300000>>)>>, "any", "none", TRUE),
    M("gaussian-sigmas-short", F(4), "set", "temperature models",
      <<("model" :> "gaussian") @@ ("centerline temperatures" :> <<100, 200>>) @@ ("gaussian sigmas" :> <<Dec(3, -1)>>) @@ ("depths" :> <<50000, 300000>>)>>, "reject", "features", TRUE),
    M("gaussian-temperatures-long", F(4), "set", "temperature models",
      <<("model" :> "gaussian") @@ ("centerline temperatures" :> <<100, 200, 300>>) @@ ("gaussian sigmas" :> <<Dec(3, -1), Dec(3, -1)>>) @@ ("depths" :> <<50000, 300000>>)>>, "reject", "features", TRUE) >>

LineMutations ==
     SetToSeq({M("no-segments", F(i), "del", "segments", 0, "reject", "features", TRUE) : i \in {5, 6}})
\o SetToSeq({M("segments-empty", F(i), "set", "segments", <<>>, "any", "none", TRUE) : i \in {5, 6}})
\o SetToSeq({M("segment-no-length", SEG1(i), "del", "length", 0, "reject", "schema", TRUE) : i \in {5, 6}})
\o SetToSeq({M("segment-no-thickness", SEG1(i), "del", "thickness", 0, "reject", "schema", TRUE) : i \in {5, 6}})
\o SetToSeq({M("segment-no-angle", SEG1(i), "del", "angle", 0, "reject", "schema", TRUE) : i \in {5, 6}})
\o SetToSeq({M("segment-three-angles", SEG1(i), "set", "angle", <<45, 50, 60>>, "reject", "schema", TRUE) : i \in {5, 6}})
\o SetToSeq({M("segment-thickness-empty", SEG1(i), "set", "thickness", <<>>, "reject", "schema", TRUE) : i \in {5, 6}})
\o SetToSeq({M("segment-length-zero", SEG1(i), "set", "length", 0, "any", "none", TRUE) : i \in {5, 6}})
\o SetToSeq({M("segment-length-huge", SEG1(i), "set", "length", Dec(1, 308), "any", "none", TRUE) : i \in {5, 6}})
\o SetToSeq({M("segment-thickness-zero", SEG1(i), "set", "thickness", <<0>>, "any", "none", TRUE) : i \in {5, 6}})
\o SetToSeq({M("segment-angle-zero", SEG1(i), "set", "angle", <<0>>, "any", "none", TRUE) : i \in {5, 6}})
\o SetToSeq({M("segment-angle-180", SEG1(i), "set", "angle", <<180>>, "any", "none", TRUE) : i \in {5, 6}})
\o SetToSeq({M("segment-unknown-key", SEG1(i), "set", "bogus", 1, "reject", "schema", TRUE) : i \in {5, 6}})
\o SetToSeq({M("no-dip-point", F(i), "del", "dip point", 0, "reject", "features", TRUE) : i \in {5, 6}})
\o SetToSeq({M("dip-point-3d", F(i), "set", "dip point", <<1, 2, 3>>, "reject", "schema", TRUE) : i \in {5, 6}})
\o SetToSeq({M("section-out-of-range", F(i), "set", "sections",
          <<("coordinate" :> 7) @@ ("segments" :> <<Segment(100000, <<50000>>, <<0>>, <<30>>)>>)>>, "reject", "features", TRUE) : i \in {5, 6}})
\o SetToSeq({M("section-more-segments", F(i), "set", "sections",
          <<("coordinate" :> 0) @@ ("segments" :> <<Segment(100000, <<50000>>, <<0>>, <<30>>), Segment(100000, <<50000>>, <<0>>, <<30>>)>>)>>, "reject", "features", TRUE) : i \in {5, 6}})
\o SetToSeq({M("section-no-coordinate", F(i), "set", "sections",
          <<("segments" :> <<Segment(100000, <<50000>>, <<0>>, <<30>>)>>)>>, "any", "none", TRUE) : i \in {5, 6}})

CoolingMutations ==
  << M("ridge-missing", TM1(7), "del", "ridge coordinates", 0, "reject", "schema", TRUE),
    M("ridge-flat", TM1(7), "set", "ridge coordinates", <<<<0, 0>>, <<1, 1>>>>, "reject", "schema", TRUE),
    M("ridge-one-point", TM1(7), "set", "ridge coordinates", <<<<<<0, 0>>>>>>, "reject", "schema", TRUE),
    M("spreading-string", TM1(7), "set", "spreading velocity", "fast", "reject", "schema", TRUE),
    M("spreading-zero", TM1(7), "set", "spreading velocity", 0, "any", "none", TRUE),
    M("spreading-array-consistent", TM1(7), "set", "spreading velocity", << <<0, <<<<Dec(3, -2), Dec(4, -2)>>>>>> >>, "any", "none", TRUE),
    M("spreading-array-short", TM1(7), "set", "spreading velocity", << <<0, <<<<Dec(3, -2)>>>>>>, <<1, <<<<Dec(3, -2)>>>>>> >>, "any", "none", TRUE),
    M("no-max-depth", TM1(7), "del", "max depth", 0, "reject", "schema", TRUE) >>

Catalogue(sph) == RootMutations(sph) \o FeatureMutations \o ModelMutations \o EulerMutations \o PlumeMutations \o LineMutations \o CoolingMutations
InReduced(m) == m.name \in {"one-coordinate", "plume-depths-long", "segment-length-zero", "max-depth-negative", "cp-zero",
                                                   "seed-negative", "cross-identical", "plume-ecc-one", "segment-angle-180", "features-empty", "radius-zero",
                                                   "spreading-zero", "segments-empty", "tmodel-operation", "cmodel-fractions-short"}

(* the Euler mutation is a compound edit: drop the matrices, give one Euler triple for two compositions *)
ApplyM(doc, m) ==
  IF m.key = "grains-euler"
  THEN Apply(Apply(Apply(doc, [m EXCEPT !.kind = "del", !.key = "rotation matrices"]),
                   [m EXCEPT !.kind = "set", !.key = "Euler angles z-x-z", !.val = <<<<10, 20, 30>>>>]),
             [m EXCEPT !.kind = "set", !.key = "compositions", !.val = <<0, 1>>])
  ELSE Apply(doc, m)

(***************************************************************************)
(* Mech |= Prop in a release build: every "reject" must be stopped by an   *)
(* always-on check.                                                        *)
(***************************************************************************)
ReleaseStops(m) == m.class = "reject" => m.alwayson
DebugOnlyRejections(sph) == {Catalogue(sph)[k].name : k \in {j \in 1..Len(Catalogue(sph)) : ~ReleaseStops(Catalogue(sph)[j])}}

(* Two edits are combined only when neither replaces or removes a container the other one addresses (after
   "features" := <<>> an edit below features[i] has nothing to apply to, and the pair is just the first edit)
   and they do not address the same object. *)
Target(m) == m.path \o <<m.key>>
Independent(m1, m2) == /\ m1.path # m2.path
                       /\ ~IsPrefix(Target(m1), m2.path)
                       /\ ~IsPrefix(Target(m2), m1.path)
Combine(c1, c2) == IF c1 = "reject" \/ c2 = "reject" THEN "reject" ELSE "any"

(***************************************************************************)
(* Machine: the mutation list grows by one per step (so pairs share work). *)
(***************************************************************************)
VARIABLES sphv, idx        \* idx: the indices (into Catalogue) of the mutations applied
Init == sphv \in BOOLEAN /\ idx = <<>>
Cat == Catalogue(sphv)
Next == \/ /\ idx = <<>>
           /\ \E k \in 1..Len(Cat) : idx' = <<k>>
           /\ UNCHANGED sphv
        \/ /\ Pairs /\ Len(idx) = 1 /\ InReduced(Cat[idx[1]])
           /\ \E k \in 1..Len(Cat) : Independent(Cat[idx[1]], Cat[k]) /\ idx' = Append(idx, k)
           /\ UNCHANGED sphv
muts == [i \in 1..Len(idx) |-> Cat[idx[i]]]

RECURSIVE ApplyAll(_, _, _)
ApplyAll(doc, ms, i) == IF i > Len(ms) THEN doc ELSE ApplyAll(ApplyM(doc, ms[i]), ms, i + 1)

ProbePts(sph) == IF sph THEN << [sph |-> <<R - 50*Km, Rat(250, 100), Rat(250, 100)>>, depth |-> 50*Km],
                                [sph |-> <<R - 130*Km, 8, Rat(250, 100)>>, depth |-> 130*Km],
                                [sph |-> <<R - 20*Km, 3, Rat(250, 100)>>, depth |-> 20*Km],
                                [sph |-> <<R - 30*Km, 4, 7>>, depth |-> 30*Km] >>
                 ELSE << [p |-> <<250*Km, 250*Km, H - 50*Km>>, depth |-> 50*Km],
                         [p |-> <<800*Km, 250*Km, H - 130*Km>>, depth |-> 130*Km],
                         [p |-> <<300*Km, 250*Km, H - 20*Km>>, depth |-> 20*Km],
                         [p |-> <<400*Km, 700*Km, H - 30*Km>>, depth |-> 30*Km] >>
AllProps == <<PT, PC(0), PC(2), PC(5), PG(0, 2), PTag, PV>>

Class == IF Len(muts) = 1 THEN muts[1].class ELSE Combine(muts[1].class, muts[2].class)
Behaviour ==
  [id |-> <<"parse", sphv, [i \in 1..Len(muts) |-> <<muts[i].name, muts[i].path>>]>>,
   labels |-> <<"parse", Class>> \o [i \in 1..Len(muts) |-> muts[i].name] \o (IF sphv THEN <<"spherical">> ELSE <<"cartesian">>)
              \o (IF Len(muts) = 2 /\ Len(muts[1].path) >= 2 /\ Len(muts[2].path) >= 2 /\ SubSeq(muts[1].path, 1, 2) = SubSeq(muts[2].path, 1, 2)
                  THEN <<"same-feature">> ELSE <<>>),
   steps |-> <<[op |-> "create", h |-> 1, wb |-> ApplyAll(Base(sphv), muts, 1), expect |-> IF Class = "reject" THEN "throw" ELSE "any"]>>
             \* a world that was built must also answer (or refuse with an exception): values may be anything here, C13 judges them
             \o [i \in 1..4 |-> ProbePts(sphv)[i] @@ [op |-> "q", h |-> 1, dim |-> 3, props |-> AllProps, may_throw |-> TRUE]]]
Emit == idx = <<>> \/ PrintT(<<"B", ToJson(Behaviour)>>)
(* base documents handed to the generic re-serialiser for byte-level damage and formatting variants *)
EmitFormatBases == \A sph \in BOOLEAN :
   PrintT(<<"F", ToJson([name |-> IF sph THEN "spherical" ELSE "cartesian", wb |-> Base(sph), probes |-> ProbePts(sph), props |-> AllProps])>>)
EmitDebugOnly == PrintT(<<"X", ToJson([cartesian |-> DebugOnlyRejections(FALSE), spherical |-> DebugOnlyRejections(TRUE)])>>)
=============================================================================
