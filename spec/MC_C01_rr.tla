---- MODULE MC_C01_rr ----
EXTENDS C01
ASSUME EmitRoundRobin
====
