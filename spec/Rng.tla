-------------------------------- MODULE Rng --------------------------------
(***************************************************************************)
(* C15 -- seeded randomness is reproducible; random grains are valid.      *)
(*                                                                         *)
(* State of a world: the number of doubles drawn from its engine so far    *)
(* (pos).  The engine is mt19937 seeded with the effective seed = the      *)
(* file's "random number seed" if >= 0 (0 is a seed like any other), else  *)
(* the constructor argument; a uniform double costs two 32-bit words.      *)
(*                                                                         *)
(* DrawCount(query): a grains request of n grains matched by a random      *)
(* grains model draws 3 n doubles (rotation) + n more if the grain size is *)
(* random (< 0 in the file); slab and fault features evaluate the models   *)
(* of both adjacent sections, i.e. twice; a random composition draws one   *)
(* double per matching request; everything else draws nothing.             *)
(*                                                                         *)
(* Prop: the reply is a function of (file, effective seed, history):       *)
(* twins built alike and queried alike agree bit for bit and their engines *)
(* sit at seed + 2 pos words; another seed gives other draws; every        *)
(* orientation is a proper rotation, normalised sizes sum to one, fixed    *)
(* sizes come back as given, random compositions lie in their own bounds.  *)
(***************************************************************************)
EXTENDS Wb, Json, SequencesExt

CONSTANTS MaxHist, Seeds

Types == {"continental plate", "oceanic plate", "mantle layer", "plume", "subducting plate", "fault"}
Kinds == {"random uniform distribution", "random uniform distribution deflected"}
(* perm: the composition labels are listed in the other order (label # position in the lists) *)
(* basis: the orientation the deflected model deflects from -- the identity, a quarter turn about the vertical, or a generic
   rotation given by z-x-z Euler angles (non-zero off-diagonal entries) *)
(* fixed0: which label has the given size.  FALSE: label 0 random and normalised, label 1 given (0.5) and not normalised;
   TRUE: label 0 GIVEN and normalised (its sizes must still sum to one), label 1 random and not normalised *)
Worlds == {w \in [type : Types, kind : Kinds, perm : BOOLEAN, basis : {"identity", "quarter-turn", "generic"}, fixed0 : BOOLEAN] :
              /\ (w.type = "plume" => w.kind = "random uniform distribution deflected")
              /\ (w.basis # "identity" => (w.kind = "random uniform distribution deflected" /\ ~w.perm))
              /\ (w.fixed0 => (~w.perm /\ w.basis = "identity"))}
Ord(w, pair) == IF w.perm THEN <<pair[2], pair[1]>> ELSE pair
IsLine(t) == t \in {"subducting plate", "fault"}

Id3 == << <<1, 0, 0>>, <<0, 1, 0>>, <<0, 0, 1>> >>
RotZ4 == << <<0, -1, 0>>, <<1, 0, 0>>, <<0, 0, 1>> >>
GrainsModel(w) ==
     ("model" :> w.kind) @@ ("compositions" :> Ord(w, <<0, 1>>)) @@ ("grain sizes" :> Ord(w, IF w.fixed0 THEN <<Dec(5, -1), -1>> ELSE <<-1, Dec(5, -1)>>))
  @@ ("normalize grain sizes" :> Ord(w, <<TRUE, FALSE>>))
  @@ (IF w.kind = "random uniform distribution deflected"
      THEN ("deflections" :> Ord(w, <<1, Dec(5, -1)>>))
           @@ (CASE w.basis = "identity" -> ("basis rotation matrices" :> <<Id3, Id3>>)
                 [] w.basis = "quarter-turn" -> ("basis rotation matrices" :> <<RotZ4, RotZ4>>)
                 [] OTHER -> ("basis Euler angles z-x-z" :> <<<<30, 40, 50>>, <<200, 75, 10>>>>))
      ELSE <<>>)
RandomComposition(w) == ("model" :> "random") @@ ("compositions" :> Ord(w, <<7, 8>>))
                        @@ ("min value" :> Ord(w, <<Dec(25, -2), 10>>)) @@ ("max value" :> Ord(w, <<Dec(75, -2), 11>>))

Feature(w) ==
  CASE w.type \in {"continental plate", "oceanic plate", "mantle layer"} ->
         Area(w.type, "f", Rect(0, 0, 500*Km, 500*Km), 0, 100*Km, <<>>,
              IF w.type = "continental plate" THEN <<RandomComposition(w)>> ELSE <<>>, <<GrainsModel(w)>>, <<>>)
    [] w.type = "plume" ->
         Plume("f", <<<<250*Km, 250*Km>>, <<250*Km, 250*Km>>>>, <<20*Km, 80*Km>>, <<100*Km, 100*Km>>, <<0, 0>>, <<0, 0>>,
               10*Km, 100*Km, <<>>, <<>>, <<GrainsModel(w)>>, <<>>)
    [] w.type = "subducting plate" ->
         Line(w.type, "f", <<<<220*Km, -100*Km>>, <<220*Km, 600*Km>>>>, <<1000*Km, 0>>, 0, 600*Km,
              <<Segment(300*Km, <<100*Km>>, <<0>>, <<45>>)>>, <<>>, <<>>, <<GrainsModel(w)>>, <<>>)
    [] w.type = "fault" ->
         Line(w.type, "f", <<<<250*Km, -100*Km>>, <<250*Km, 600*Km>>>>, <<1000*Km, 0>>, 0, 600*Km,
              <<Segment(200*Km, <<50*Km>>, <<0>>, <<90>>)>>, <<>>, <<>>, <<GrainsModel(w)>>, <<>>)

Doc(w, fileseed) == World(Cartesian, <<Feature(w)>>) @@ (IF fileseed >= 0 THEN ("random number seed" :> fileseed) ELSE <<>>)

(* queries: <<name, property list, inside the feature?>> *)
Queries == { <<"G0x1", <<PG(0, 1)>>, TRUE>>, <<"G0x3", <<PG(0, 3)>>, TRUE>>, <<"G1x2", <<PG(1, 2)>>, TRUE>>,
             <<"C7", <<PC(7)>>, TRUE>>, <<"C8", <<PC(8)>>, TRUE>>, <<"T", <<PT, PTag>>, TRUE>>,
             <<"batch", <<PG(0, 2), PC(7), PT, PG(1, 1), PC(8)>>, TRUE>>, <<"outside", <<PG(0, 2), PC(7)>>, FALSE>> }

RandomSize(w, label) == (label = 0) # w.fixed0                \* the label whose size is drawn
Draws1(w, p) == CASE p[1] = 3 /\ p[2] \in {0, 1} /\ RandomSize(w, p[2]) -> (IF IsLine(w.type) THEN 2 ELSE 1) * 4 * p[3]      \* random size: 3n + n
                  [] p[1] = 3 /\ p[2] \in {0, 1} -> (IF IsLine(w.type) THEN 2 ELSE 1) * 3 * p[3]                              \* given size: 3n
                  [] p[1] = 2 /\ p[2] \in {7, 8} /\ w.type = "continental plate" -> 1
                  [] OTHER -> 0
DrawCount(w, q) == IF q[3] THEN SumSeq([i \in 1..Len(q[2]) |-> Draws1(w, q[2][i])]) ELSE 0

(***************************************************************************)
(* The machine: one world configuration and seed per behaviour, a history  *)
(* of queries; pos is the abstract engine position.                        *)
(***************************************************************************)
VARIABLES world, seed, pos, hist
vars == <<world, seed, pos, hist>>
Init == world \in Worlds /\ seed \in Seeds /\ pos = 0 /\ hist = <<>>
Ask(q) == /\ Len(hist) < MaxHist
          /\ pos' = pos + DrawCount(world, q)
          /\ hist' = Append(hist, <<q, pos + DrawCount(world, q)>>)
          /\ UNCHANGED <<world, seed>>
Next == \E q \in Queries : Ask(q)

PosMonotone == [][pos' >= pos]_vars
NoDrawOutside == \A k \in 1..Len(hist) : ~hist[k][1][3] => hist[k][2] = (IF k = 1 THEN 0 ELSE hist[k - 1][2])

(***************************************************************************)
(* Replay: three worlds.  1: seed through the constructor; 2: the same     *)
(* seed through the file entry (constructor seed different); 3: another    *)
(* seed.  After every query the engines of 1 and 2 must sit at             *)
(* seed + 2 * pos words.                                                   *)
(***************************************************************************)
H == 1000 * Km
Pin == [p |-> <<250*Km, 250*Km, H - 50*Km>>, depth |-> 50*Km, dim |-> 3]
Pout == [p |-> <<800*Km, 900*Km, H - 50*Km>>, depth |-> 50*Km, dim |-> 3]

RECURSIVE Valid(_, _, _, _)
Valid(w, props, i, inside) ==
  IF i > Len(props) THEN <<>>
  ELSE LET p == props[i]  off == Offset(props, i)
           e == IF ~inside THEN (IF p[1] = 3 THEN <<[k |-> "eq", at |-> off, v |-> [j \in 1..Size(p) |-> 0]]>> ELSE <<[k |-> "eq", at |-> off, v |-> 0]>>)
                ELSE CASE p[1] = 3 /\ p[2] = 0 -> <<[k |-> "rotations", at |-> off, n |-> p[3], tol |-> Dec(1, -12), sizes_sum |-> 1]>>      \* normalised (random or given)
                       [] p[1] = 3 /\ p[2] = 1 /\ ~w.fixed0 -> <<[k |-> "rotations", at |-> off, n |-> p[3], tol |-> Dec(1, -12), sizes_in |-> <<Dec(5, -1), Dec(5, -1)>>]>>
                       [] p[1] = 3 /\ p[2] = 1 -> <<[k |-> "rotations", at |-> off, n |-> p[3], tol |-> Dec(1, -12)]>>                                \* random, not normalised
                       [] p[1] = 2 /\ p[2] = 7 /\ w.type = "continental plate" -> <<[k |-> "between", at |-> off, lo |-> Dec(25, -2), hi |-> Dec(75, -2), slack |-> 0]>>
                       [] p[1] = 2 /\ p[2] = 8 /\ w.type = "continental plate" -> <<[k |-> "between", at |-> off, lo |-> 10, hi |-> 11, slack |-> 0]>>
                       [] OTHER -> <<>>
       IN e \o Valid(w, props, i + 1, inside)

Steps(k) ==
  LET q == hist[k][1]
      pt == IF q[3] THEN Pin ELSE Pout
      nm == "r" \o ToString(k)
  IN << pt @@ [op |-> "q", h |-> 1, props |-> q[2], save |-> nm, expect |-> <<[k |-> "len", n |-> Total(q[2])], [k |-> "finite"]>> \o Valid(world, q[2], 1, q[3])],
        pt @@ [op |-> "q", h |-> 2, props |-> q[2], expect |-> <<[k |-> "bits", at |-> 0, n |-> Total(q[2]), ref |-> nm]>>],
        pt @@ [op |-> "q", h |-> 3, props |-> q[2],
               expect |-> IF DrawCount(world, q) > 0 THEN <<[k |-> "differs", ref |-> nm]>> ELSE <<[k |-> "bits", at |-> 0, n |-> Total(q[2]), ref |-> nm]>>],
        [op |-> "engine", h |-> 1, seed |-> seed, words |-> 2 * hist[k][2]],
        [op |-> "engine", h |-> 2, seed |-> seed, words |-> 2 * hist[k][2]] >>

Behaviour ==
  [id |-> <<"rng", world, seed, [k \in 1..Len(hist) |-> hist[k][1][1]]>>,
   labels |-> <<"rng", world.type, world.kind, IF world.perm THEN "labels-permuted" ELSE "labels-in-order", "basis-" \o world.basis, IF world.fixed0 THEN "given-size-normalised" ELSE "random-size-normalised">>,
   steps |-> << [op |-> "create", h |-> 1, wb |-> Doc(world, -1), seed |-> seed],
                [op |-> "create", h |-> 2, wb |-> Doc(world, seed), seed |-> seed + 17],
                [op |-> "create", h |-> 3, wb |-> Doc(world, -1), seed |-> seed + 1],
                [op |-> "engine", h |-> 1, seed |-> seed, words |-> 0],
                [op |-> "engine", h |-> 2, seed |-> seed, words |-> 0] >>
             \o FlattenSeq([k \in 1..Len(hist) |-> Steps(k)])]
Emit == Len(hist) < MaxHist \/ PrintT(<<"B", ToJson(Behaviour)>>)
=============================================================================
