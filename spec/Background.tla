----------------------------- MODULE Background -----------------------------
(***************************************************************************)
(* C03 -- outside every feature the background state is returned; a forced *)
(* surface temperature holds at depth 0 whatever the features and however  *)
(* the request is batched.                                                 *)
(*                                                                         *)
(* Prop : T = Ts                      if forced and depth = 0              *)
(*        T = Tp * exp(((alpha * g) / cp) * depth)   outside every feature *)
(*        compositions 0, velocity 0, grains all zero, tag -1 outside.     *)
(* Mech : the three steps of World::properties -- initial fill of the      *)
(*        output (with the forced value at depth 0), the early return when *)
(*        temperature is the only request, the fold over the features --   *)
(*        and, since fix c609bda4, the re-imposition after the fold.       *)
(***************************************************************************)
EXTENDS Wb, Json, SequencesExt

CONSTANT PreFixF2        \* TRUE: the mechanism as it was before the fix (no re-imposition after the fold)

Tps    == {1600, 1000, 273}
Alphas == {Dec(35, -6), Dec(0, 0), Dec(1, -4)}
Cps    == {1250, 1000}
Gs     == {Dec(10, 0), Dec(981, -2), Dec(162, -2), Dec(-981, -2)}      \* a negative magnitude (upward-positive convention) keeps its sign
Tss    == {273, 300}
Depths == {-10 * Km, 0, 1, 100 * Km, 2890 * Km}
Lists  == {<<PT>>, <<PT, PC(0)>>, <<PTag, PT, PV>>, <<PG(0, 2), PT>>, <<PC(3), PV, PTag>>}

(* feature sets: none; features that miss the probe; a feature that covers it *)
FeatureSets == {"none", "miss", "cover"}

Config == [tp : Tps, alpha : Alphas, cp : Cps, g : Gs, sph : BOOLEAN, force : BOOLEAN, ts : Tss, fs : FeatureSets]

(***************************************************************************)
(* Mech on abstract slot values                                            *)
(***************************************************************************)
ForcedNow(c, d) == c.force /\ d = 0
Fill(c, d) == IF ForcedNow(c, d) THEN "Ts" ELSE "adiabat"
EarlyReturn(c, d, props) == ForcedNow(c, d) /\ Len(props) = 1 /\ props[1][1] = 1
(* the covering feature spans depths -20 km .. 2895 km; its uniform temperature model has the
   schema's default range 0 .. max, so it paints only at depth >= 0 *)
Painted(c, d) == c.fs = "cover" /\ d >= 0
FoldT(c, d, v) == IF Painted(c, d) THEN "feature" ELSE v
MechT(c, d, props) ==
  IF EarlyReturn(c, d, props) THEN Fill(c, d)
  ELSE LET folded == FoldT(c, d, Fill(c, d))
       IN IF ~PreFixF2 /\ ForcedNow(c, d) THEN "Ts" ELSE folded
PropT(c, d) == IF ForcedNow(c, d) THEN "Ts" ELSE IF Painted(c, d) THEN "feature" ELSE "adiabat"

MechRefinesProp == \A c \in Config, d \in Depths, props \in Lists : MechT(c, d, props) = PropT(c, d)

(***************************************************************************)
(* Rendering and expectations                                              *)
(***************************************************************************)
H == 3000 * Km
R == 6371000
FeatureT == 777
Feats(c) ==
  LET U(km) == IF c.sph THEN Rat(km, 100) ELSE km * Km
      Rc(x0, y0, x1, y1) == <<<<U(x0), U(y0)>>, <<U(x1), U(y0)>>, <<U(x1), U(y1)>>, <<U(x0), U(y1)>>>>
      ms == <<TUniform(FeatureT, "replace")>>
  IN CASE c.fs = "none" -> <<>>
       [] c.fs = "miss" -> << Area("continental plate", "hm", Rc(600, 0, 900, 500), 0, 3000*Km, ms, <<CUniform(<<0>>, "replace")>>, <<>>, <<VUniform(<<1,2,3>>)>>),
                              Area("mantle layer", "dm", Rc(0, 0, 500, 500), 2900*Km, 2950*Km, ms, <<CUniform(<<3>>, "replace")>>, <<>>, <<>>) >>
       [] c.fs = "cover" -> << Area("oceanic plate", "cv", Rc(0, 0, 500, 500), -20*Km, 2895*Km, ms, <<>>, <<>>, <<>>) >>

Doc(c) == World(IF c.sph THEN Spherical("begin segment") ELSE Cartesian, Feats(c))
          @@ ("potential mantle temperature" :> c.tp) @@ ("thermal expansion coefficient" :> c.alpha)
          @@ ("specific heat" :> c.cp) @@ ("surface temperature" :> c.ts) @@ ("force surface temperature" :> c.force)
          @@ ("gravity model" :> (("model" :> "uniform") @@ ("magnitude" :> c.g)))

Adiabat(c, d) == Mul(c.tp, Exp(Mul(Div(Mul(c.alpha, c.g), c.cp), d)))
ExpectT(c, d) == CASE PropT(c, d) = "Ts" -> c.ts [] PropT(c, d) = "feature" -> FeatureT [] OTHER -> Adiabat(c, d)

Pt(c, d) == IF c.sph THEN [sph |-> <<R - d, Rat(250, 100), Rat(250, 100)>>] ELSE [p |-> <<250*Km, 250*Km, H - d>>]

RECURSIVE Expect(_, _, _, _)
Expect(c, d, props, i) ==
  IF i > Len(props) THEN <<>>
  ELSE LET p == props[i]
           off == Offset(props, i)
           e == CASE p[1] = 1 -> <<[k |-> "tol", at |-> off, v |-> ExpectT(c, d), rel |-> Dec(1, -13), abs |-> 0]>>
                  [] p[1] = 2 /\ c.fs # "cover" -> <<[k |-> "eq", at |-> off, v |-> 0]>>
                  [] p[1] = 3 /\ c.fs # "cover" -> <<[k |-> "eq", at |-> off, v |-> [j \in 1..Size(p) |-> 0]]>>
                  [] p[1] = 4 /\ c.fs # "cover" -> <<[k |-> "tag", at |-> off, name |-> FALSE]>>
                  [] p[1] = 5 /\ c.fs # "cover" -> <<[k |-> "eq", at |-> off, v |-> <<0, 0, 0>>]>>
                  [] OTHER -> <<>>
       IN e \o Expect(c, d, props, i + 1)

Behaviour(c) ==
  LET qs == SetToSeq(Depths \X Lists) IN
  [id |-> <<"bg", c>>,
   labels |-> <<"background", "fs:" \o c.fs, IF c.force THEN "forced" ELSE "unforced", IF c.sph THEN "spherical" ELSE "cartesian">>,
   steps |-> <<[op |-> "create", h |-> 1, wb |-> Doc(c)]>> \o
             [i \in 1..Len(qs) |->
                Pt(c, qs[i][1]) @@ [op |-> "q", h |-> 1, dim |-> 3, depth |-> qs[i][1], props |-> qs[i][2],
                                    expect |-> <<[k |-> "len", n |-> Total(qs[i][2])]>> \o Expect(c, qs[i][1], qs[i][2], 1)]]]

VARIABLES cfg, ihist
Init == cfg \in Config /\ ihist = <<>>
Next == UNCHANGED <<cfg, ihist>>
Emit == PrintT(<<"B", ToJson(Behaviour(cfg))>>)

(***************************************************************************)
(* Interleaving machine.  The background of a world is determined by that  *)
(* world's own constants: whatever other worlds live in the process and    *)
(* whatever was asked of them before, the answer is the world's own        *)
(* adiabat.  State: the history of (world, depth) queries against three    *)
(* live worlds that differ in expansivity / specific heat / potential      *)
(* temperature but share the gravity magnitude; TLC enumerates every       *)
(* history of length MaxInter and each is replayed with all three worlds   *)
(* alive in one process.  Mech: World::properties reads only members of    *)
(* its own World (world.cc:421-445) -- no state is shared, so the          *)
(* mechanism's answer does not mention the history.                        *)
(***************************************************************************)
CONSTANT MaxInter
IWorlds == << [tp |-> 1600, alpha |-> Dec(35, -6), cp |-> 1250, g |-> Dec(10, 0), sph |-> FALSE, force |-> FALSE, ts |-> 273, fs |-> "none"],
              [tp |-> 1600, alpha |-> Dec(1, -4),  cp |-> 1250, g |-> Dec(10, 0), sph |-> TRUE,  force |-> FALSE, ts |-> 273, fs |-> "none"],
              [tp |-> 1000, alpha |-> Dec(35, -6), cp |-> 1000, g |-> Dec(10, 0), sph |-> FALSE, force |-> TRUE,  ts |-> 300, fs |-> "miss"] >>
IDepths == {100 * Km, 2890 * Km}
IInit == cfg = IWorlds[1] /\ ihist = <<>>
INext == /\ Len(ihist) < MaxInter
         /\ \E w \in 1..Len(IWorlds), d \in IDepths : ihist' = Append(ihist, <<w, d>>)
         /\ UNCHANGED cfg
MechI(h, k) == Adiabat(IWorlds[h[k][1]], h[k][2])           \* no term of the history other than the k-th query itself
PropI(h, k) == ExpectT(IWorlds[h[k][1]], h[k][2])
IMechOK == \A k \in 1..Len(ihist) : MechI(ihist, k) = PropI(ihist, k)
IBehaviour(h) ==
  [id |-> <<"bg-interleaved", h>>, labels |-> <<"background", "interleaved-worlds">>,
   steps |-> [w \in 1..Len(IWorlds) |-> [op |-> "create", h |-> w, wb |-> Doc(IWorlds[w])]] \o
             [k \in 1..Len(h) |->
                LET c == IWorlds[h[k][1]]  props == IF k % 2 = 1 THEN <<PT>> ELSE <<PTag, PT, PV>>
                IN Pt(c, h[k][2]) @@ [op |-> "q", h |-> h[k][1], dim |-> 3, depth |-> h[k][2], props |-> props,
                                      expect |-> <<[k |-> "len", n |-> Total(props)]>> \o Expect(c, h[k][2], props, 1)]]]
IEmit == Len(ihist) = MaxInter => PrintT(<<"B", ToJson(IBehaviour(ihist))>>)
=============================================================================
