------------------------------- MODULE Culling -------------------------------
(***************************************************************************)
(* C07 -- acceleration shortcuts never change an answer: the families the  *)
(* exact planar model (Slab.tla) cannot judge.  Worlds are rendered twice  *)
(* in one process, as built and with the shortcuts neutralised (GWB_VERIF  *)
(* hook: bounding box and maximum length inflated to infinity, min / max   *)
(* pre-test bounds of variable depth surfaces removed); every query must   *)
(* be answered bit-identically by both.                                    *)
(*                                                                         *)
(*   curved / oblique trenches in spherical coordinates up to 80 degrees   *)
(*   latitude, trenches crossing the +-180 meridian, shallow and steep     *)
(*   dips, long slabs, a non-zero min depth; Cartesian curved trenches;    *)
(*   area features whose min / max depth are given at points.              *)
(* The probe grid extends well beyond the buffer the code adds, in         *)
(* longitude, latitude and depth.                                          *)
(***************************************************************************)
EXTENDS Wb, Json, SequencesExt

R == 6371000
HM == 3000 * Km

(* spherical trenches: sequences of <<lon, lat>> in degrees *)
SphTrenches == { << <<0, 40>>, <<-10, 70>> >>,            \* oblique, high latitude
                 << <<170, 60>>, <<190, 80>> >>,          \* crosses the +-180 meridian towards the pole
                 << <<175, -10>>, <<185, 10>> >>,         \* crosses it at the equator
                 << <<-185, -10>>, <<-175, 10>> >>,       \* the same crossing written with longitudes below -180
                 << <<-178, -10>>, <<-178, 10>> >>,       \* along a meridian just east of -180: dipping west it reaches over the date line
                 << <<178, 30>>, <<179, 50>> >>,          \* just west of +180: dipping east it reaches over the date line
                 << <<0, 0>>, <<0, 10>> >>,               \* along a meridian
                 << <<-30, 75>>, <<0, 80>>, <<30, 75>> >>,\* curved, around the pole side
                 << <<10, 20>>, <<14, 24>>, <<20, 25>>, <<24, 31>> >> }
DipSides == {"west", "east"}
Shapes == { [len |-> 500, dip |-> 30, thick |-> 100, mind |-> 0], [len |-> 1500, dip |-> 20, thick |-> 150, mind |-> 0],
            [len |-> 400, dip |-> 80, thick |-> 100, mind |-> 100], [len |-> 800, dip |-> 45, thick |-> 200, mind |-> 50] }
LineKinds == {"subducting plate", "fault"}

SphCfg == [trench : SphTrenches, side : DipSides, shape : Shapes, kind : LineKinds]

MidLon(t) == (t[1][1] + t[Len(t)][1]) \div 2
MidLat(t) == (t[1][2] + t[Len(t)][2]) \div 2
SphDoc(c) ==
  World(Spherical("begin segment"),
        <<Line(c.kind, "line", c.trench, <<MidLon(c.trench) + (IF c.side = "west" THEN -40 ELSE 40), MidLat(c.trench)>>, c.shape.mind * Km, 2500 * Km,
               <<Segment(c.shape.len * Km, <<c.shape.thick * Km>>, <<0>>, <<c.shape.dip>>)>>,
               <<TUniform(500, "replace")>>, <<CUniform(<<1>>, "replace")>>, <<>>, <<>>)>>)

MinOf(S) == CHOOSE m \in S : \A x \in S : m <= x
MaxOf(S) == CHOOSE m \in S : \A x \in S : m >= x
Lons(t) == {t[i][1] : i \in 1..Len(t)}
Lats(t) == {t[i][2] : i \in 1..Len(t)}
(* probe grid: longitudes and latitudes in whole degrees around the trench, far beyond the buffer *)
LonRange(t) == {MinOf(Lons(t)) - 40 + 4 * k : k \in 0..((MaxOf(Lons(t)) - MinOf(Lons(t)) + 80) \div 4)}
LatRange(t) == {l \in {MinOf(Lats(t)) - 16 + 2 * k : k \in 0..((MaxOf(Lats(t)) - MinOf(Lats(t)) + 32) \div 2)} : l > -90 /\ l < 90}
DepthsKm == {0, 40, 90, 150, 250, 400, 600, 900, 1300}

SphRows(c) == LET ps == SetToSeq(LonRange(c.trench) \X LatRange(c.trench) \X DepthsKm) IN
              [k \in 1..Len(ps) |-> <<R - ps[k][3] * Km, ps[k][1], ps[k][2], ps[k][3] * Km>>]
SphBehaviour(c) ==
  [id |-> <<"cull-sph", c>>, labels |-> <<"culling", c.kind, "spherical">>,
   steps |-> << [op |-> "create", h |-> 1, wb |-> SphDoc(c)], [op |-> "create", h |-> 2, wb |-> SphDoc(c), culling |-> FALSE],
                [op |-> "qtable", h |-> 1, h2 |-> 2, dim |-> 3, sph |-> TRUE, props |-> <<PT, PC(1), PTag>>, rows |-> SphRows(c)] >>]

(* Cartesian curved trenches (km) *)
CartTrenches == { << <<0, 0>>, <<300, 200>>, <<400, 600>> >>, << <<0, 0>>, <<0, 300>>, <<300, 300>>, <<300, 0>> >>, << <<-500, 100>>, <<0, 0>>, <<500, 100>> >> }
CartCfg == [trench : CartTrenches, side : {"a", "b"}, shape : Shapes, kind : LineKinds]
CartDoc(c) ==
  World(Cartesian,
        <<Line(c.kind, "line", [i \in 1..Len(c.trench) |-> <<c.trench[i][1] * Km, c.trench[i][2] * Km>>],
               IF c.side = "a" THEN <<2000 * Km, 300 * Km>> ELSE <<-2000 * Km, 300 * Km>>, c.shape.mind * Km, 2500 * Km,
               <<Segment(c.shape.len * Km, <<c.shape.thick * Km>>, <<0>>, <<c.shape.dip>>)>>,
               <<TUniform(500, "replace")>>, <<CUniform(<<1>>, "replace")>>, <<>>, <<>>)>>)
CartRows(c) == LET ps == SetToSeq({-2600 + 200 * k : k \in 0..26} \X {-2300 + 200 * k : k \in 0..26} \X DepthsKm) IN
               [k \in 1..Len(ps) |-> <<ps[k][1] * Km, ps[k][2] * Km, HM - ps[k][3] * Km, ps[k][3] * Km>>]
CartBehaviour(c) ==
  [id |-> <<"cull-cart", c>>, labels |-> <<"culling", c.kind, "cartesian-curved">>,
   steps |-> << [op |-> "create", h |-> 1, wb |-> CartDoc(c)], [op |-> "create", h |-> 2, wb |-> CartDoc(c), culling |-> FALSE],
                [op |-> "qtable", h |-> 1, h2 |-> 2, dim |-> 3, props |-> <<PT, PC(1), PTag>>, rows |-> CartRows(c)] >>]

(* area features with depth surfaces given at points: the min / max pre-test before the local depth is looked up *)
AreaTypes == {"continental plate", "oceanic plate", "mantle layer"}
(* the four corners carry four different values; rot says with which corner the coordinate list starts and peak which
   corner carries the extreme (the deepest max depth, the shallowest min depth): the feature-wide minimum / maximum of a
   surface must not depend on where in the list its extreme stands *)
AreaCfg == [type : AreaTypes, sph : BOOLEAN, rot : 0..3, peak : 0..3]
Corners4 == << <<100, 100>>, <<900, 100>>, <<900, 700>>, <<100, 700>> >>
MaxVals == <<230, 260, 290, 320>>      \* km
MinVals == <<55, 40, 25, 10>>
AreaDoc(c) ==
  LET Uu(x) == IF c.sph THEN Rat(x, 100) ELSE x * Km
      P(p) == <<Uu(p[1]), Uu(p[2])>>
      corner(k) == Corners4[((k - 1 + c.rot) % 4) + 1]                    \* k-th entry of the coordinate list
      val(vs, k) == vs[((k - 1 + c.rot + 4 - c.peak) % 4) + 1]           \* corner number peak + 1 gets vs[4]
  IN World(IF c.sph THEN Spherical("begin segment") ELSE Cartesian,
           <<Area(c.type, "a", [k \in 1..4 |-> P(corner(k))],
                  [k \in 1..4 |-> <<val(MinVals, k) * Km, <<P(corner(k))>>>>] \o << <<60 * Km, <<P(<<500, 400>>)>>>> >>,
                  [k \in 1..4 |-> <<val(MaxVals, k) * Km, <<P(corner(k))>>>>] \o << <<250 * Km, <<P(<<300, 300>>)>>>> >>,
                  <<TUniform(500, "replace")>>, <<CUniform(<<1>>, "replace")>>, <<>>, <<>>)>>)
AreaRows(c) == LET ps == SetToSeq({50 * k : k \in 1..19} \X {50 * k : k \in 1..15}
                                  \X {0, 9, 10, 11, 24, 25, 26, 39, 40, 41, 54, 55, 56, 60, 120, 229, 230, 231, 259, 260, 261, 289, 290, 291, 319, 320, 321, 400}) IN
               [k \in 1..Len(ps) |-> IF c.sph THEN <<R - ps[k][3] * Km, Rat(ps[k][1], 100), Rat(ps[k][2], 100), ps[k][3] * Km>>
                                              ELSE <<ps[k][1] * Km, ps[k][2] * Km, HM - ps[k][3] * Km, ps[k][3] * Km>>]
AreaBehaviour(c) ==
  [id |-> <<"cull-area", c>>, labels |-> <<"culling", c.type, "depth-surfaces">>,
   steps |-> << [op |-> "create", h |-> 1, wb |-> AreaDoc(c)], [op |-> "create", h |-> 2, wb |-> AreaDoc(c), culling |-> FALSE],
                [op |-> "qtable", h |-> 1, h2 |-> 2, dim |-> 3, sph |-> c.sph, props |-> <<PT, PC(1), PTag>>, rows |-> AreaRows(c)] >>]

VARIABLE cfg
Init == cfg \in ({"sph"} \X SphCfg) \cup ({"cart"} \X CartCfg) \cup ({"area"} \X AreaCfg)
Next == UNCHANGED cfg
Emit == PrintT(<<"B", ToJson(CASE cfg[1] = "sph" -> SphBehaviour(cfg[2]) [] cfg[1] = "cart" -> CartBehaviour(cfg[2]) [] cfg[1] = "area" -> AreaBehaviour(cfg[2]))>>)
=============================================================================
