------------------------------- MODULE Surface -------------------------------
(***************************************************************************)
(* C11 -- depth surfaces given as values at points are honoured,           *)
(* affine-exact and bounded.                                               *)
(*                                                                         *)
(* A depth surface is a list of entries: [v] (no points: every polygon     *)
(* corner gets v) or [v, points].  Prop: the nodal value of a coordinate   *)
(* is the value of the LAST entry that names it (a point-less entry names  *)
(* every corner); corners never named keep the documented default; inside  *)
(* the polygon the depth used lies between the smallest and largest nodal  *)
(* value; if the nodal values are samples of one affine function the depth *)
(* used IS that function, whatever triangulation is chosen.                *)
(*                                                                         *)
(* Mech: the merge of parameters.cc:511-716 -- corners first, then every   *)
(* listed point is looked up among the nodes collected so far with         *)
(* `approx` on both coordinates and either overwrites or is appended.      *)
(* ApproxZeroBug = TRUE transcribes approx as it is in utilities.h: on the  *)
(* lattice approx(a, b) is a = b /\ a # 0, so a point with a zero          *)
(* coordinate never matches and is appended as a duplicate node.           *)
(***************************************************************************)
EXTENDS Wb, Json, SequencesExt

CONSTANTS ApproxZeroBug,
          Resets          \* where a second point-less entry may stand: subset of {"none", "mid", "end"}

(* lattice unit: 100 km; values in km *)
Polygons == << << <<0, 0>>, <<4, 0>>, <<4, 3>>, <<0, 3>> >>,          \* has corners with a zero coordinate
               << <<1, 1>>, <<5, 1>>, <<5, 4>>, <<1, 4>> >>,
               << <<-2, 0>>, <<2, -1>>, <<3, 2>>, <<0, 4>>, <<-3, 2>> >>,     \* pentagon, a corner on an axis
               << <<1, 1>>, <<21, 1>>, <<21, 21>>, <<1, 21>> >> >>            \* a large square with irregularly placed interior points (spherical family)
Interior(pi) == CASE pi = 1 -> << <<2, 1>>, <<1, 2>> >> [] pi = 2 -> << <<3, 2>>, <<2, 3>>, <<4, 3>>, <<2, 2>>, <<4, 2>> >> [] pi = 3 -> << <<0, 1>>, <<1, 2>> >>
                 [] pi = 4 -> << <<4, 19>>, <<11, 16>>, <<13, 3>>, <<16, 17>> >>

Affine(p) == 100 + 10 * p[1] + 5 * p[2]           \* km
Default == 60                                      \* the value of the point-less first entry

(* a configuration: polygon, which corners are listed, how many interior points, affine or bumped values,
   whether the corners come before or after the interior points *)
AreaTypes == {"continental plate", "oceanic plate", "mantle layer"}
(* which: the surface is the feature's max depth (min depth constant), its min depth (max depth constant), or both
   (the max depth surface is the min depth surface shifted down by 150 km) *)
Configs == [poly : 1..4, listed : SUBSET (1..4), nint : {0, 1, 2, 4, 5}, affine : BOOLEAN, cornersfirst : BOOLEAN, type : AreaTypes, which : {"max", "min", "both"},
            reset : Resets,
            where : {"feature", "composition model", "temperature model"},   \* whose min / max depth the surface is
            sph : BOOLEAN,                                                   \* lattice unit 1 degree instead of 100 km
            lonoff : {0, 177, 169}]                                               \* spherical: every longitude shifted by this many degrees (the polygon then spans 178..182)
Valid(c) == /\ c.affine => (c.listed = 1..4 /\ c.reset = "none")   \* affine data need every corner listed (a fifth corner of the pentagon too)
            \* model-level surfaces and spherical worlds: on the second polygon, oceanic plates, corners first
            /\ (c.where # "feature" \/ c.sph) => (c.poly \in {2, 4} /\ c.type = "oceanic plate" /\ c.cornersfirst /\ c.reset = "none")
            \* many listed interior points (ten triangles) and the shifted polygon: spherical, affine data
            /\ (c.nint = 5 => (c.sph /\ c.affine /\ c.where = "feature"))
            /\ (c.lonoff = 177 => (c.sph /\ c.affine /\ c.nint = 5))
            \* the large square: spherical, affine, its four irregular interior points, at longitudes 1..21 or 170..190
            /\ (c.poly = 4 <=> c.nint = 4) /\ (c.lonoff = 169 => c.poly = 4)
            /\ (c.poly = 4 => (c.sph /\ c.affine /\ c.where = "feature" /\ c.type = "oceanic plate" /\ c.cornersfirst /\ c.reset = "none"
                              /\ c.which = "max"))          \* (its affine values reach 415 km, below the constant 400 km max depth of the other two)
            /\ c.reset # "none" => c.nint > 0                       \* a later point-less entry is interesting when listed interior points precede it
ResetV == 80                                       \* the value of the later point-less entry: resets the corners, and only the corners

Val(c, p, k) == IF c.affine THEN Affine(p) ELSE Affine(p) + 7 * k      \* the k-th listed point, bumped off the plane
CornerEntries(c) == LET P == Polygons[c.poly]
                        L == IF c.affine THEN 1..Len(P) ELSE c.listed \cap (1..Len(P))
                    IN [k \in 1..Cardinality(L) |-> <<Val(c, P[SetToSeq(L)[k]], k), <<P[SetToSeq(L)[k]]>>>>]
InteriorEntries(c) == [k \in 1..c.nint |-> <<Val(c, Interior(c.poly)[k], k + 4), <<Interior(c.poly)[k]>>>>]
Entries(c) == LET a == IF c.cornersfirst THEN CornerEntries(c) ELSE InteriorEntries(c)
                  b == IF c.cornersfirst THEN InteriorEntries(c) ELSE CornerEntries(c)
              IN <<<<Default>>>> \o a \o (IF c.reset = "mid" THEN <<<<ResetV>>>> ELSE <<>>) \o b \o (IF c.reset = "end" THEN <<<<ResetV>>>> ELSE <<>>)

(***************************************************************************)
(* Prop: nodal values as a function coordinate -> value                    *)
(***************************************************************************)
Corners(c) == {Polygons[c.poly][i] : i \in 1..Len(Polygons[c.poly])}
RECURSIVE PropNodes(_, _, _)
PropNodes(c, es, acc) ==
  IF es = <<>> THEN acc
  ELSE LET e == Head(es) IN
       IF Len(e) = 1 THEN PropNodes(c, Tail(es), [p \in DOMAIN acc |-> IF p \in Corners(c) THEN e[1] ELSE acc[p]])
       ELSE PropNodes(c, Tail(es), [p \in (DOMAIN acc) \cup {e[2][j] : j \in 1..Len(e[2])} |->
                                       IF \E j \in 1..Len(e[2]) : e[2][j] = p THEN e[1] ELSE acc[p]])
Nodal(c) == PropNodes(c, Entries(c), [p \in Corners(c) |-> 0])

(***************************************************************************)
(* Mech: a growing list of <<coordinate, value>> nodes                      *)
(***************************************************************************)
Approx(a, b) == a = b /\ (ApproxZeroBug => a # 0)
RECURSIVE MechPoint(_, _, _, _)
MechPoint(nodes, p, v, i) ==
  IF i > Len(nodes) THEN Append(nodes, <<p, v>>)
  ELSE IF Approx(nodes[i][1][1], p[1]) /\ Approx(nodes[i][1][2], p[2]) THEN [nodes EXCEPT ![i] = <<p, v>>]
  ELSE MechPoint(nodes, p, v, i + 1)
RECURSIVE MechEntry(_, _, _, _)
MechEntry(nodes, e, j, ncorners) ==
  IF Len(e) = 1 THEN [i \in 1..Len(nodes) |-> IF i <= ncorners THEN <<nodes[i][1], e[1]>> ELSE nodes[i]]
  ELSE IF j > Len(e[2]) THEN nodes ELSE MechEntry(MechPoint(nodes, e[2][j], e[1], 1), e, j + 1, ncorners)
RECURSIVE MechAll(_, _, _)
MechAll(nodes, es, ncorners) == IF es = <<>> THEN nodes ELSE MechAll(MechEntry(nodes, Head(es), 1, ncorners), Tail(es), ncorners)
MechNodes(c) == LET P == Polygons[c.poly] IN MechAll([i \in 1..Len(P) |-> <<P[i], 0>>], Entries(c), Len(P))

(* the mechanism yields exactly one node per coordinate, carrying the specified value *)
MechRefinesProp(c) ==
  LET ns == MechNodes(c) IN
  /\ \A i, j \in 1..Len(ns) : i # j => ns[i][1] # ns[j][1]
  /\ \A i \in 1..Len(ns) : ns[i][1] \in DOMAIN Nodal(c) /\ Nodal(c)[ns[i][1]] = ns[i][2]
  /\ \A p \in DOMAIN Nodal(c) : \E i \in 1..Len(ns) : ns[i][1] = p

(***************************************************************************)
(* Rendering and probes                                                    *)
(***************************************************************************)
U == 100 * Km
HM == 2000 * Km
RE == 6371000
PtM(c, p) == IF c.sph THEN <<p[1] + c.lonoff, p[2]>> ELSE <<p[1] * U, p[2] * U>>
RenderEntry(c, e, shift) == IF Len(e) = 1 THEN <<(e[1] + shift) * Km>> ELSE <<(e[1] + shift) * Km, [j \in 1..Len(e[2]) |-> PtM(c, e[2][j])]>>
SurfaceOf(c, shift) == [k \in 1..Len(Entries(c)) |-> RenderEntry(c, Entries(c)[k], shift)]
(* the two surfaces of a feature are independent: with both depths given at points the max-depth surface lists, for affine data, the
   LAST nint interior points of the catalogue instead of the first (another triangulation of the same plane), otherwise the same nodes
   in the opposite order after the default entry *)
AltInterior(c) == LET I == Interior(c.poly) IN [k \in 1..c.nint |-> <<Val(c, I[Len(I) - k + 1], k + 4), <<I[Len(I) - k + 1]>>>>]
AltEntries(c) == <<<<Default>>>> \o (IF c.cornersfirst THEN CornerEntries(c) \o AltInterior(c) ELSE AltInterior(c) \o CornerEntries(c))
AltSurfaceOf(c, shift) == [k \in 1..Len(AltEntries(c)) |-> RenderEntry(c, AltEntries(c)[k], shift)]
LoOf(c) == IF c.which = "max" THEN 0 ELSE SurfaceOf(c, 0)
HiOf(c) == CASE c.which = "max" -> SurfaceOf(c, 0) [] c.which = "min" -> 400 * Km [] c.which = "both" -> IF c.affine THEN AltSurfaceOf(c, 150)                          \* affine data: other interior nodes, the same plane
                                                ELSE IF c.reset = "none" THEN <<Head(SurfaceOf(c, 150))>> \o Reverse(Tail(SurfaceOf(c, 150))) ELSE SurfaceOf(c, 150)
(* the observed quantity switches between "on" and "off" where the surface is: composition 1 (1 / 0), or for a temperature
   model the temperature (500 / the background, 1600 exactly with thermal expansion 0) *)
Doc(c) == World(IF c.sph THEN Spherical("begin segment") ELSE Cartesian,
                <<Area(c.type, "p", [i \in 1..Len(Polygons[c.poly]) |-> PtM(c, Polygons[c.poly][i])],
                       IF c.where = "feature" THEN LoOf(c) ELSE 0, IF c.where = "feature" THEN HiOf(c) ELSE 700 * Km,
                       IF c.where = "temperature model" THEN <<TUniform(500, "replace") @@ ("min depth" :> LoOf(c)) @@ ("max depth" :> HiOf(c))>> ELSE <<>>,
                       IF c.where = "temperature model" THEN <<>>
                       ELSE IF c.where = "composition model" THEN <<CUniform(<<1>>, "replace") @@ ("min depth" :> LoOf(c)) @@ ("max depth" :> HiOf(c))>>
                       ELSE <<CUniform(<<1>>, "replace")>>, <<>>, <<>>)>>)
          @@ ("thermal expansion coefficient" :> 0) @@ ("potential mantle temperature" :> 1600)
On(c)  == IF c.where = "temperature model" THEN 500 ELSE 1
Off(c) == IF c.where = "temperature model" THEN 1600 ELSE 0

MinNodal(c) == LET N == Nodal(c) IN CHOOSE m \in {N[p] : p \in DOMAIN N} : \A p \in DOMAIN N : m <= N[p]
MaxNodal(c) == LET N == Nodal(c) IN CHOOSE m \in {N[p] : p \in DOMAIN N} : \A p \in DOMAIN N : m >= N[p]

(* rows <<x, y, z, depth, expected composition>>: 1 m above the predicted depth the composition is on, 1 m below off *)
RowAt(c, p2, d, v) == IF c.sph THEN <<RE - d, Rat(p2[1] + 2 * c.lonoff, 2), Rat(p2[2], 2), d, v>> ELSE <<p2[1] * 50 * Km, p2[2] * 50 * Km, HM - d, d, v>>
SwitchAt(c, p2, d, shallow, deep) == << RowAt(c, p2, d - 1, shallow), RowAt(c, p2, d + 1, deep) >>
(* d2: twice the predicted depth in metres (half-lattice values of the affine function are half-integers in km) *)
SwitchC(c, p2, d) == CASE c.which = "max" -> SwitchAt(c, p2, d, On(c), Off(c))
                       [] c.which = "min" -> SwitchAt(c, p2, d, Off(c), On(c))
                       [] c.which = "both" -> SwitchAt(c, p2, d, Off(c), On(c)) \o SwitchAt(c, p2, d + 150 * Km, On(c), Off(c))
Switch(c, p2, dkm) == SwitchC(c, p2, dkm * Km)
(* interior probes on the half lattice (coordinates doubled), strictly inside the rectangles *)
HalfProbes(c) == CASE c.poly = 1 -> {<<x, y>> : x \in 1..7, y \in 1..5}
                   [] c.poly = 2 -> {<<x, y>> : x \in 3..9, y \in 3..7}
                   [] c.poly = 3 -> {<<x, y>> : x \in -2..3, y \in 1..4}
                   [] c.poly = 4 -> {<<x, y>> : x \in {5, 20, 35}, y \in {5, 20, 35}}
Rows(c) ==
  LET N == Nodal(c)
      \* on the sphere a polygon corner is a boundary point only up to rounding (degrees -> radians -> Cartesian and back):
      \* there the nodal values are observed at the listed interior points only
      nodes == IF c.sph THEN (DOMAIN N) \ Corners(c) ELSE DOMAIN N
      nodal == FlattenSeq([k \in 1..Cardinality(nodes) |->
                  LET p == SetToSeq(nodes)[k] IN Switch(c, <<2 * p[1], 2 * p[2]>>, N[p])])
      hp == SetToSeq(HalfProbes(c))
      inside == IF c.affine
                THEN FlattenSeq([k \in 1..Len(hp) |->
                        \* f at a half-lattice point: 100 + 5 x + 2.5 y km = (200 + 10 x + 5 y) / 2
                        SwitchC(c, hp[k], (200 + 10 * hp[k][1] + 5 * hp[k][2]) * 500)])
                ELSE FlattenSeq([k \in 1..Len(hp) |->
                        \* the local depth lies between the smallest and the largest nodal value
                        LET lo == MinNodal(c) * Km - 1  hi == MaxNodal(c) * Km + 1
                            row(d, v) == RowAt(c, hp[k], d, v)
                        IN CASE c.which = "max" -> <<row(lo, On(c)), row(hi, Off(c))>>
                             [] c.which = "min" -> <<row(lo, Off(c)), row(hi, On(c))>>
                             [] c.which = "both" -> <<row(lo, Off(c)), row(hi, On(c)), row(lo + 150 * Km, On(c)), row(hi + 150 * Km, Off(c))>>])
      \* with many listed points (nint = 5) the affine value is also asked on a dense grid (eighths of a lattice unit): which
      \* triangle of the triangulation a point falls in, and how that triangle is found, must not matter
      dense == IF c.nint \in {4, 5} /\ c.affine
               THEN LET ps == SetToSeq(IF c.poly = 4 THEN {<<2 * x, 2 * y>> : x \in 5..83, y \in 5..83} ELSE {<<x, y>> : x \in 9..39, y \in 9..31}) IN
                    FlattenSeq([k \in 1..Len(ps) |->
                       LET d == (800 + 10 * ps[k][1] + 5 * ps[k][2]) * 125       \* f at (x/8, y/8) in metres
                           row(dd, v) == IF c.sph THEN <<RE - dd, Rat(ps[k][1] + 8 * c.lonoff, 8), Rat(ps[k][2], 8), dd, v>>
                                         ELSE <<ps[k][1] * 12500, ps[k][2] * 12500, HM - dd, dd, v>>
                       IN CASE c.which = "max" -> <<row(d - 1, On(c)), row(d + 1, Off(c))>>
                            [] c.which = "min" -> <<row(d - 1, Off(c)), row(d + 1, On(c))>>
                            [] OTHER -> <<row(d - 1, Off(c)), row(d + 1, On(c)), row(d + 150 * Km - 1, On(c)), row(d + 150 * Km + 1, Off(c))>>])
               ELSE <<>>
  IN nodal \o inside \o dense

Behaviour(c) ==
  [id |-> <<"surface", c>>,
   labels |-> <<"surface", IF c.affine THEN "affine" ELSE "bumped", "poly" \o ToString(c.poly), c.type, "surface-of-" \o c.which, "reset-" \o c.reset,
                c.where, IF c.sph THEN "spherical" ELSE "cartesian", "interior-points-" \o ToString(c.nint), "lon-offset-" \o ToString(c.lonoff)>>
              \o (IF \E e \in {Entries(c)[k] : k \in 1..Len(Entries(c))} : Len(e) = 2 /\ e[2][1] \in Corners(c) /\ (e[2][1][1] = 0 \/ e[2][1][2] = 0)
                  THEN <<"listed-corner-with-zero-coordinate">> ELSE <<>>),
   steps |-> << [op |-> "create", h |-> 1, wb |-> Doc(c)],
                [op |-> "qtable", h |-> 1, dim |-> 3, sph |-> c.sph, props |-> <<IF c.where = "temperature model" THEN PT ELSE PC(1)>>,
                 checks |-> <<[k |-> "eq", at |-> 0, col |-> 4]>>, rows |-> Rows(c)] >>]

VARIABLE cfg
Init == cfg \in {c \in Configs : Valid(c)}
Next == UNCHANGED cfg
MechOK == MechRefinesProp(cfg)
Emit == PrintT(<<"B", ToJson(Behaviour(cfg))>>)
=============================================================================
