----------------------------- MODULE Concurrent -----------------------------
(***************************************************************************)
(* C14 -- any number of threads may query one constructed world (without   *)
(* random models) concurrently.                                            *)
(*                                                                         *)
(* Model: a query is Read* ; Return.  It reads the immutable world state,  *)
(* accumulates into a vector it owns and returns it.  The world has one    *)
(* mutable component, the random engine, touched only by random models     *)
(* (excluded here, see C15).  Hence: (1) the set of shared locations a     *)
(* query writes is empty -- this is what ThreadSanitizer observes on the   *)
(* real code; (2) every thread's replies equal the single-thread replies,  *)
(* whatever the interleaving -- checked here over all interleavings of     *)
(* Threads threads issuing StreamLen queries each, and bitwise by the      *)
(* harness on real threads.                                                *)
(***************************************************************************)
EXTENDS KS, Json, SequencesExt

CONSTANTS Threads, StreamLen, NQueries

(* abstract queries 1..NQueries; Reply is the single-thread answer (uninterpreted, injective) *)
Reply(q) == q

VARIABLES pc,        \* thread -> "idle" | "reading" | "done"
          cur,       \* thread -> index in its stream
          stream,    \* thread -> sequence of queries
          got,       \* thread -> sequence of replies received
          acc,       \* thread -> thread-private accumulator of the running query
          sharedWrites
vars == <<pc, cur, stream, got, acc, sharedWrites>>

Init == /\ stream \in [1..Threads -> [1..StreamLen -> 1..NQueries]]
        /\ pc = [t \in 1..Threads |-> "idle"] /\ cur = [t \in 1..Threads |-> 1]
        /\ got = [t \in 1..Threads |-> <<>>] /\ acc = [t \in 1..Threads |-> 0]
        /\ sharedWrites = {}
Start(t) == /\ pc[t] = "idle" /\ cur[t] <= StreamLen
            /\ pc' = [pc EXCEPT ![t] = "reading"] /\ acc' = [acc EXCEPT ![t] = 0]
            /\ UNCHANGED <<cur, stream, got, sharedWrites>>
(* reading world state and painting into the private vector: no shared location is written *)
Read(t) == /\ pc[t] = "reading" /\ acc[t] = 0
           /\ acc' = [acc EXCEPT ![t] = Reply(stream[t][cur[t]])]
           /\ UNCHANGED <<pc, cur, stream, got, sharedWrites>>
Return(t) == /\ pc[t] = "reading" /\ acc[t] # 0
             /\ got' = [got EXCEPT ![t] = Append(@, acc[t])]
             /\ cur' = [cur EXCEPT ![t] = @ + 1]
             /\ pc' = [pc EXCEPT ![t] = IF cur[t] = StreamLen THEN "done" ELSE "idle"]
             /\ UNCHANGED <<stream, acc, sharedWrites>>
Next == \E t \in 1..Threads : Start(t) \/ Read(t) \/ Return(t)

NoSharedWrite == sharedWrites = {}
SingleThreadAnswers == \A t \in 1..Threads : \A k \in 1..Len(got[t]) : got[t][k] = Reply(stream[t][k])

(***************************************************************************)
(* What the harness runs on real threads: the kitchen-sink worlds, every   *)
(* probe of C01 as query, streams = rotations of the full query list.      *)
(***************************************************************************)
ProbesKm == << <<100, 100, 50>>, <<250, 250, 100>>, <<600, 250, 120>>, <<800, 250, 130>>, <<300, 250, 20>>,
               <<1500, 250, 50>>, <<250, 250, 0>>, <<800, 400, 130>>, <<400, 700, 30>>, <<700, 250, 1>> >>
Lists == << <<PT>>, <<PT, PC(0), PC(1), PTag, PV>>, <<PG(0, 2), PV, PC(2), PG(1, 3), PT>>, <<PC(5), PTag>> >>
Job(sph) == [wb |-> World(IF sph THEN Spherical("begin segment") ELSE Cartesian, KSFeatures(sph))
                      @@ ("cross section" :> <<XY(sph, 0, 250), XY(sph, 1000, 250)>>),
             points |-> [i \in 1..Len(ProbesKm) |->
                           IF sph THEN [sph |-> <<R - ProbesKm[i][3] * Km, Rat(ProbesKm[i][1], 100), Rat(ProbesKm[i][2], 100)>>, depth |-> ProbesKm[i][3] * Km]
                                  ELSE [p |-> <<ProbesKm[i][1] * Km, ProbesKm[i][2] * Km, H - ProbesKm[i][3] * Km>>, depth |-> ProbesKm[i][3] * Km]],
             lists |-> Lists]
EmitJobs == PrintT(<<"J", ToJson(Job(FALSE))>>) /\ PrintT(<<"J", ToJson(Job(TRUE))>>)
=============================================================================
