----------------------------- MODULE Degenerate -----------------------------
(***************************************************************************)
(* C13 -- on a built world every query at a finite point and depth         *)
(* terminates and returns finite numbers or throws a standard exception.   *)
(*                                                                         *)
(* The specification contributes the DEGENERATE LOCATIONS of a             *)
(* configuration as operators of that configuration: polygon vertices and  *)
(* edge points, points on / at the ends of / below the trench line, the    *)
(* slab tip and fault bottom, depth 0 and each feature's own min / max     *)
(* depth, the plume axis and cap apex, points on a spreading ridge (age 0), *)
(* the poles, the +-180 meridian, the planet's centre, Cartesian frames    *)
(* whose surface is at z = 0 (z = -depth), negative and huge depths.       *)
(* TLC enumerates world x location x depth x property list; the replay     *)
(* runs under ASan + UBSan with a per-behaviour time limit.                *)
(***************************************************************************)
EXTENDS KS, Json, SequencesExt

(* two more cooling plates north of the kitchen sink, with the ridge running through them *)
(* Degenerate WORLDS.  The statement speaks about every world that builds, so besides degenerate locations of one
   world the specification enumerates edits that make the world itself degenerate while staying schema-valid:
   repeated ridge / trench / polygon coordinates (zero-length pieces), a ridge that is a single point, zero-length
   and zero-thickness segments, a feature whose min depth equals its max depth, a plume of zero width, a zero
   spreading velocity.  If the constructor refuses such a world there is nothing to check; if it builds, every
   query must still return finite numbers or throw. *)
Edits == {"none", "ridge-first-point-twice", "ridge-last-point-twice", "ridge-single-point", "ridge-middle-point-twice",
          "trench-point-twice", "segment-zero-length", "segment-zero-thickness", "polygon-vertex-twice", "polygon-zero-area",
          "min-equals-max-depth", "plume-zero-width", "spreading-zero", "slab-ridge-point-twice", "fault-vertical-zero-thickness",
          "model-range-touches-feature-bottom", "model-range-touches-feature-top", "model-range-empty",
          "dip-zero", "dip-180", "dips-nearly-equal", "plume-eccentricity-near-one", "plume-single-section", "slab-vertical-untapered",
          "slab-one-coordinate", "fault-one-coordinate"}
Ridge(sph, e, y0, y1) ==
  CASE e = "ridge-first-point-twice"  -> << <<XY(sph, 500, y0), XY(sph, 500, y0), XY(sph, 500, y1)>> >>
    [] e = "ridge-last-point-twice"   -> << <<XY(sph, 500, y0), XY(sph, 500, y1), XY(sph, 500, y1)>> >>
    [] e = "ridge-middle-point-twice" -> << <<XY(sph, 500, y0), XY(sph, 450, y0 + 250), XY(sph, 450, y0 + 250), XY(sph, 500, y1)>> >>
    [] e = "ridge-single-point"       -> << <<XY(sph, 500, y0 + 250), XY(sph, 500, y0 + 250)>> >>
    [] OTHER                          -> << <<XY(sph, 500, y0), XY(sph, 500, y1)>> >>
RidgePlateE(sph, e, name, model, y0, y1) ==
  Area("oceanic plate", name, RectU(sph, 0, y0, 1000, y1), 0, 120*Km,
       <<   ("model" :> model) @@ ("min depth" :> 0) @@ ("max depth" :> 120*Km)
         @@ ("spreading velocity" :> IF e = "spreading-zero" THEN 0 ELSE Dec(3, -2)) @@ ("top temperature" :> 273) @@ ("bottom temperature" :> 1600)
         @@ ("ridge coordinates" :> Ridge(sph, e, y0, y1)) >>,
       <<CUniform(<<6>>, "replace")>>, <<>>, <<>>)
RidgePlate(sph, name, model, y0, y1) ==
  Area("oceanic plate", name, RectU(sph, 0, y0, 1000, y1), 0, 120*Km,
       <<   ("model" :> model) @@ ("min depth" :> 0) @@ ("max depth" :> 120*Km)
         @@ ("spreading velocity" :> Dec(3, -2)) @@ ("top temperature" :> 273) @@ ("bottom temperature" :> 1600)
         @@ ("ridge coordinates" :> << <<XY(sph, 500, y0), XY(sph, 500, y1)>> >>) >>,
       <<CUniform(<<6>>, "replace")>>, <<>>, <<>>)
(* an area feature whose depth range is given at points (corners included), and a slab with a kink *)
SurfacePlate(sph) ==
  Area("continental plate", "surfaces", RectU(sph, 1200, 0, 1700, 500),
       << <<10*Km>>, <<30*Km, <<XY(sph, 1450, 250)>>>> >>,
       << <<200*Km>>, <<100*Km, <<XY(sph, 1200, 0), XY(sph, 1450, 250)>>>> >>,
       <<TUniform(400, "replace")>>, <<CUniform(<<7>>, "replace")>>, <<>>, <<>>)
KinkSlabE(sph, e) ==
  Line("subducting plate", "kink",
       IF e = "slab-one-coordinate" THEN <<XY(sph, 1300, 1000)>>        \* schema-valid: a trench that is a single point
       ELSE IF e = "trench-point-twice" THEN <<XY(sph, 1300, 700), XY(sph, 1300, 1000), XY(sph, 1300, 1000), XY(sph, 1500, 1200)>>
                                   ELSE <<XY(sph, 1300, 700), XY(sph, 1300, 1000), XY(sph, 1500, 1200)>>,
       XY(sph, 2000, 800), 0, 600*Km,
       CASE e = "segment-zero-length" -> <<Segment(200*Km, <<100*Km>>, <<0>>, <<30, 60>>), Segment(0, <<100*Km>>, <<0>>, <<60>>), Segment(200*Km, <<100*Km, 50*Km>>, <<0>>, <<60>>)>>
         [] e = "segment-zero-thickness" -> <<Segment(200*Km, <<100*Km, 0>>, <<0>>, <<30, 60>>), Segment(200*Km, <<0>>, <<0>>, <<60>>)>>
         [] e = "slab-vertical-untapered" -> <<Segment(300*Km, <<100*Km>>, <<0>>, <<90>>)>>      \* the tip is at 300 km depth, the taper distance is 0
         [] e = "dip-zero" -> <<Segment(200*Km, <<100*Km>>, <<0>>, <<0>>), Segment(200*Km, <<100*Km>>, <<0>>, <<0, 40>>)>>
         [] e = "dip-180" -> <<Segment(200*Km, <<100*Km>>, <<0>>, <<90, 180>>), Segment(100*Km, <<100*Km>>, <<0>>, <<180>>)>>
         [] e = "dips-nearly-equal" -> <<Segment(200*Km, <<100*Km>>, <<0>>, <<30, Dec(300000001, -7)>>), Segment(200*Km, <<100*Km>>, <<0>>, <<Dec(300000001, -7), 30>>)>>
         [] OTHER -> <<Segment(200*Km, <<100*Km>>, <<0>>, <<30, 60>>), Segment(200*Km, <<100*Km, 50*Km>>, <<0>>, <<60>>)>>,
       <<   ("model" :> "mass conserving") @@ ("density" :> 3300) @@ ("thermal conductivity" :> Dec(33, -1))
         @@ ("adiabatic heating" :> TRUE) @@ ("spreading velocity" :> Dec(5, -2)) @@ ("subducting velocity" :> Dec(5, -2))
         @@ ("ridge coordinates" :> IF e = "slab-ridge-point-twice"
                                        THEN << <<XY(sph, -1000, -1000), XY(sph, -1000, -1000), XY(sph, -1000, 3000)>> >>
                                        ELSE << <<XY(sph, -1000, -1000), XY(sph, -1000, 3000)>> >>) @@ ("coupling depth" :> 80*Km)
         @@ ("forearc cooling factor" :> 1) @@ ("taper distance" :> 0) @@ ("min distance slab top" :> -200*Km) @@ ("max distance slab top" :> 300*Km) >>,
       <<CUniform(<<8>>, "replace")>>, <<>>, <<>>)

KinkSlab(sph) == KinkSlabE(sph, "none")
LinearAt(lo, hi) == ("model" :> "linear") @@ ("min depth" :> lo) @@ ("max depth" :> hi) @@ ("top temperature" :> 400) @@ ("bottom temperature" :> 900)
(* edits of the kitchen-sink features themselves *)
KSEdit(sph, e) ==
  LET F == KSFeatures(sph) IN
  CASE e = "polygon-vertex-twice" -> [F EXCEPT ![1]["coordinates"] = <<XY(sph, 0, 0), XY(sph, 500, 0), XY(sph, 500, 0), XY(sph, 500, 500), XY(sph, 0, 500)>>]
    [] e = "polygon-zero-area"    -> [F EXCEPT ![2]["coordinates"] = <<XY(sph, 500, 0), XY(sph, 750, 250), XY(sph, 1000, 500)>>]
    [] e = "min-equals-max-depth" -> [F EXCEPT ![3]["max depth"] = 100*Km, ![1]["min depth"] = 200*Km]
    [] e = "plume-zero-width"     -> [F EXCEPT ![4]["semi-major axis"] = <<0, 0>>]
    [] e = "plume-eccentricity-near-one" -> [F EXCEPT ![4]["eccentricity"] = <<Dec(999999, -6), 1>>]
    [] e = "plume-single-section" -> [F EXCEPT ![4]["coordinates"] = <<XY(sph, 250, 250)>>, ![4]["cross section depths"] = <<50*Km>>,
                                               ![4]["semi-major axis"] = <<U(sph, 100)>>, ![4]["eccentricity"] = <<Dec(5, -1)>>, ![4]["rotation angles"] = <<30>>]
    [] e = "fault-vertical-zero-thickness" -> [F EXCEPT ![6]["segments"] = <<Segment(200*Km, <<0>>, <<0>>, <<90>>)>>]
    [] e = "fault-one-coordinate" -> [F EXCEPT ![6]["coordinates"] = <<XY(sph, 300, 250)>>]
    \* a model whose own depth range meets the feature's range in a single depth (or is empty): the overlap has no thickness
    [] e = "model-range-touches-feature-bottom" ->
         [F EXCEPT ![1]["temperature models"] = Append(@, LinearAt(200*Km, 300*Km)), ![2]["temperature models"] = Append(@, LinearAt(150*Km, 250*Km)),
                   ![3]["temperature models"] = Append(@, LinearAt(400*Km, 500*Km))]
    [] e = "model-range-touches-feature-top" ->
         [F EXCEPT ![1]["temperature models"] = Append(@, LinearAt(0, 0)), ![2]["temperature models"] = Append(@, LinearAt(0, 0)),
                   ![3]["temperature models"] = Append(@, LinearAt(0, 100*Km))]
    [] e = "model-range-empty" ->
         [F EXCEPT ![1]["temperature models"] = Append(@, LinearAt(50*Km, 50*Km)), ![2]["temperature models"] = Append(@, LinearAt(120*Km, 120*Km)),
                   ![3]["temperature models"] = Append(@, LinearAt(350*Km, 350*Km))]
    [] OTHER -> F
Features13E(sph, e) == KSEdit(sph, e) \o <<RidgePlateE(sph, e, "hs", "half space model", 1000, 1500), RidgePlateE(sph, e, "pm", "plate model", 1500, 2000),
                                            SurfacePlate(sph), KinkSlabE(sph, e)>>
Features13(sph) == Features13E(sph, "none")

WorldKinds == {"cartesian", "cartesian-surface-at-z0", "spherical"}
DocE(k, e) == World(IF k = "spherical" THEN Spherical("begin segment") ELSE Cartesian, Features13E(k = "spherical", e))
              @@ ("cross section" :> <<XY(k = "spherical", 0, 250), XY(k = "spherical", 1000, 250)>>)
Doc(k) == DocE(k, "none")

(* degenerate surface positions <<class, x km, y km>> *)
Surface ==
  { <<"polygon-vertex", 0, 0>>, <<"polygon-vertex", 500, 0>>, <<"polygon-vertex", 500, 500>>, <<"polygon-vertex", 1000, 500>>, <<"polygon-vertex", 0, 1000>>,
    <<"polygon-edge", 250, 0>>, <<"polygon-edge", 500, 250>>, <<"polygon-edge", 750, 500>>, <<"polygon-edge", 0, 300>>,
    <<"trench-end", 700, -100>>, <<"trench-end", 700, 600>>, <<"trench-line", 700, 250>>, <<"trench-line", 700, 0>>,
    <<"slab-tip", 912, 250>>, <<"behind-trench", 650, 250>>, <<"beyond-trench-end", 700, 700>>,
    <<"fault-end", 300, -100>>, <<"fault-line", 300, 250>>, <<"fault-line", 300, 600>>,
    <<"plume-axis", 250, 250>>, <<"plume-rim", 350, 250>>,
    <<"ridge-point", 500, 1250>>, <<"ridge-point", 500, 1000>>, <<"ridge-point", 500, 1750>>, <<"ridge-point", 500, 2000>>, <<"ridge-far", 999, 1250>>,
    <<"surface-node", 1450, 250>>, <<"surface-node", 1200, 0>>, <<"surface-node", 1700, 500>>, <<"surface-inside", 1300, 100>>,
    <<"kink-coordinate", 1300, 1000>>, <<"kink-inside", 1400, 950>>, <<"kink-trench-end", 1500, 1200>>, <<"kink-trench-start", 1300, 700>>,
    <<"outside", 3000, 3000>>, <<"origin-far", -5000, -5000>> }
DepthsKm == {0, 10, 20, 50, 100, 120, 150, 200, 212, 350, 400, 600}
OddDepths == {-1, -100 * Km, 1, 10000 * Km}

(* spherical-only locations <<class, radius, lon deg, lat deg, depth>> *)
SphereSpecial ==
  { <<"north-pole", R, 0, 90, 0>>, <<"south-pole", R, 0, -90, 0>>, <<"north-pole-deep", R - 100*Km, 45, 90, 100*Km>>,
    <<"meridian-180", R, 180, 0, 0>>, <<"meridian-minus-180", R, -180, 0, 0>>, <<"meridian-180-deep", R - 50*Km, 180, Rat(25, 10), 50*Km>>,
    <<"centre", 0, 0, 0, R>>, <<"near-centre", 1, 0, 0, R - 1>>, <<"above-surface", R + 1000, Rat(25, 10), Rat(25, 10), -1000>> }

Lists == {<<PT>>, <<PT, PC(0), PC(2), PC(5), PC(6), PC(7), PC(8), PG(0, 2), PTag, PV>>, <<PG(0, 0), PT, PG(1, 0)>>}      \* also: zero grains asked for

Point(k, x, y, d) == CASE k = "spherical" -> [sph |-> <<R - d, Rat(x, 100), Rat(y, 100)>>]
                       [] k = "cartesian" -> [p |-> <<x * Km, y * Km, H - d>>]
                       [] k = "cartesian-surface-at-z0" -> [p |-> <<x * Km, y * Km, 0 - d>>]

Query(k, cls, pt, d, props, dim) ==
  pt @@ [op |-> "q", h |-> 1, dim |-> dim, depth |-> d, props |-> props, may_throw |-> TRUE, expect |-> <<[k |-> "finite"]>>, cls |-> cls]

Behaviour(k, s) ==
  LET ds == SetToSeq({d * Km : d \in DepthsKm} \cup OddDepths)
      ls == SetToSeq(Lists)
  IN [id |-> <<"degenerate", k, s>>, labels |-> <<"degenerate", k, s[1]>>,
      steps |-> <<[op |-> "create", h |-> 1, wb |-> Doc(k)]>>
                \o FlattenSeq([i \in 1..Len(ds) |-> [j \in 1..Len(ls) |-> Query(k, s[1], Point(k, s[2], s[3], ds[i]), ds[i], ls[j], 3)]])
                \* the same location through the 2D interface when it lies on the cross section
                \o (IF s[3] = 250 /\ k = "cartesian"
                    THEN FlattenSeq([i \in 1..Len(ds) |-> [j \in 1..Len(ls) |-> Query(k, s[1], [p |-> <<s[2] * Km, H - ds[i]>>], ds[i], ls[j], 2)]])
                    ELSE <<>>)]

SphereBehaviour(s) ==
  LET ls == SetToSeq(Lists) IN
  [id |-> <<"degenerate", "spherical", s>>, labels |-> <<"degenerate", "spherical", s[1]>>,
   steps |-> <<[op |-> "create", h |-> 1, wb |-> Doc("spherical")]>>
             \o [j \in 1..Len(ls) |-> Query("spherical", s[1], [sph |-> <<s[2], s[3], s[4]>>], s[5], ls[j], 3)]]

(* a degenerate world: built once (the constructor may refuse it), then asked at every degenerate surface position *)
EditDepthsKm == {0, 50, 100, 120, 150, 200, 300, 350, 400}      \* includes every min / max depth of the area features
EditBehaviour(k, e) ==
  LET qs == SetToSeq(Surface \X EditDepthsKm)
      full == <<PT, PC(0), PC(2), PC(5), PC(6), PC(7), PC(8), PG(0, 2), PTag, PV>>
  IN [id |-> <<"degenerate-world", k, e>>, labels |-> <<"degenerate-world", k, e>>,
      steps |-> <<[op |-> "create", h |-> 1, wb |-> DocE(k, e), expect |-> "any"]>>
                \o [i \in 1..Len(qs) |-> Query(k, qs[i][1][1], Point(k, qs[i][1][2], qs[i][1][3], qs[i][2] * Km), qs[i][2] * Km, full, 3)]]

VARIABLES kind, loc
Init == \/ (kind \in WorldKinds /\ loc \in Surface)
        \/ (kind = "spherical" /\ loc \in SphereSpecial)
        \/ (kind \in WorldKinds /\ loc \in {<<e>> : e \in Edits \ {"none"}})
Next == UNCHANGED <<kind, loc>>
Emit == PrintT(<<"B", ToJson(CASE Len(loc) = 3 -> Behaviour(kind, loc) [] Len(loc) = 1 -> EditBehaviour(kind, loc[1]) [] OTHER -> SphereBehaviour(loc))>>)
(* every class of degenerate location is generated for every world kind it applies to *)
Classes == {s[1] : s \in Surface}
CoverageOK == \A c \in Classes : \E s \in Surface : s[1] = c
=============================================================================
