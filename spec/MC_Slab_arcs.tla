---- MODULE MC_Slab_arcs ----
EXTENDS Slab
ASSUME EmitArcs
====
