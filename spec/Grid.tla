-------------------------------- MODULE Grid --------------------------------
(***************************************************************************)
(* C18 -- gwb-grid writes the requested mesh and the library's values at   *)
(* its nodes.                                                              *)
(*                                                                         *)
(* Prop, for the structured grid types (cartesian, chunk, annulus):        *)
(*   the nodes, identified by their lattice indices, are exactly the index *)
(*   box 0..nx x 0..ny x 0..nz (annulus: 0..nt-1 cyclic x 0..nz), each     *)
(*   once; the cells are exactly the unit cells of that lattice, each      *)
(*   once, each listing its 4 / 8 corners in a VTK-valid cyclic order with *)
(*   VTK type 9 / 12 and offsets 4, 8, ... / 8, 16, ...; "Depth" of a node *)
(*   with vertical index k is (nz - k) steps below the top.                *)
(*   Any node numbering and any cell order satisfies this, so renumbering  *)
(*   is never reported.                                                    *)
(* Prop, filter: FilterCells(include) keeps exactly the cells whose        *)
(*   highest node tag is >= 0 and included.                                *)
(*                                                                         *)
(* This module holds the configurations TLC enumerates (what the .grid     *)
(* file says), and the predicates; GridTrace.tla applies them to the mesh  *)
(* the real tool wrote.                                                    *)
(***************************************************************************)
EXTENDS KS, Json, SequencesExt

CONSTANT MaxN        \* largest cell count per direction

Types == {"cartesian", "chunk", "annulus", "sphere"}
(* full: the sphere reaches down to the centre (z_min = 0) instead of being a shell *)
(* limit: the command line says --resolution-limit <limit> (0: the option is absent): every requested cell count is capped by it;
   ascii: the .grid file asks for the ASCII vtu format (six significant digits) instead of raw binary *)
Configs == {g \in [type : Types, dim : {2, 3}, nx : 1..MaxN, ny : 1..MaxN, nz : 1..MaxN, full : BOOLEAN, limit : 0..1, ascii : BOOLEAN] :
              /\ (g.full => g.type = "sphere")
              /\ (g.limit > 0 => (~g.full /\ ~g.ascii /\ g.type # "sphere" /\ (g.nx > g.limit \/ g.ny > g.limit \/ g.nz > g.limit)))
              /\ (g.ascii => g.type = "cartesian")
              /\ (g.dim = 2 => g.ny = 1)
              /\ (g.type = "annulus" => g.dim = 2 /\ g.nx = 1)
              /\ (g.type = "sphere" => g.dim = 3 /\ g.nx = g.ny /\ g.nx <= 2 /\ g.nz <= 2)
              /\ (g.type = "chunk" /\ g.dim = 3 => g.nx + g.ny + g.nz <= MaxN + 3)}

S(n) == ToString(n)
(* the .grid file: integral bounds so that lattice indices can be recovered exactly *)
GridFile(g) ==
  <<"grid_type = " \o g.type, "dim = " \o S(g.dim), "compositions = 3", "vtu_output_format = " \o (IF g.ascii THEN "ASCII" ELSE "RawBinary")>> \o
  (CASE g.type = "cartesian" -> <<"x_min = 0", "x_max = 600e3", "y_min = 100e3", "y_max = 400e3", "z_min = 400e3", "z_max = 1000e3">>
     [] g.type = "chunk"     -> <<"x_min = 0", "x_max = 12", "y_min = 0", "y_max = 6", "z_min = 5771000", "z_max = 6371000">>
     [] g.type = "annulus"   -> <<"x_min = 0", "x_max = 1", "y_min = 0", "y_max = 1", "z_min = 4371000", "z_max = 6371000">>
     [] g.type = "sphere"    -> <<"x_min = 0", "x_max = 1", "y_min = 0", "y_max = 1", "z_min = " \o (IF g.full THEN "0" ELSE "5371000"), "z_max = 6371000">>) \o
  <<"n_cell_x = " \o S(g.nx), "n_cell_y = " \o S(g.ny), "n_cell_z = " \o S(g.nz)>>

(* bounds as numbers for the trace converter: <<x_min, x_max, y_min, y_max, z_min, z_max>> *)
Bounds(g) == CASE g.type = "cartesian" -> <<0, 600000, 100000, 400000, 400000, 1000000>>
               [] g.type = "chunk"     -> <<0, 12, 0, 6, 5771000, 6371000>>
               [] g.type = "annulus"   -> <<0, 1, 0, 1, 4371000, 6371000>>
               [] g.type = "sphere"    -> <<0, 1, 0, 1, IF g.full THEN 0 ELSE 5371000, 6371000>>

Sph(g) == g.type # "cartesian"
WorldDoc(g) == World(IF Sph(g) THEN Spherical("begin segment") ELSE Cartesian, KSFeatures(Sph(g)))
               @@ ("cross section" :> <<XY(Sph(g), 0, 250), XY(Sph(g), 1000, 250)>>)

(* Prop: the mesh has min(requested, limit) cells per direction *)
Cap(g, n) == IF g.limit = 0 \/ n <= g.limit THEN n ELSE g.limit
Effective(g) == [g EXCEPT !.nx = Cap(g, g.nx), !.ny = Cap(g, g.ny), !.nz = Cap(g, g.nz)]
Job(g) == [config |-> g, effective |-> Effective(g), grid |-> GridFile(g), bounds |-> Bounds(g), wb |-> WorldDoc(g)]

(***************************************************************************)
(* Prop predicates over a recorded mesh                                    *)
(*   nodes : id -> [ijk, dk, tag]     cells : sequence of node-id tuples   *)
(***************************************************************************)
Structured(g) == g.type \in {"cartesian", "chunk", "annulus"}
Dims(g, nt) == IF g.type = "annulus" THEN <<nt - 1, 0, g.nz>>        \* index ranges 0..Dims[d]
               ELSE <<g.nx, IF g.dim = 3 THEN g.ny ELSE 0, g.nz>>
InBox(g, nt, ijk) == \A d \in 1..3 : ijk[d] >= 0 /\ ijk[d] <= Dims(g, nt)[d]
NodeCount(g, nt) == (Dims(g, nt)[1] + 1) * (Dims(g, nt)[2] + 1) * (Dims(g, nt)[3] + 1)
CellCount(g, nt) == IF g.type = "annulus" THEN nt * g.nz ELSE g.nx * (IF g.dim = 3 THEN g.ny ELSE 1) * g.nz

(* a and b are lattice neighbours (differ by one step in exactly one direction; annulus wraps in direction 1) *)
Step(g, nt, a, b, d) == IF g.type = "annulus" /\ d = 1 THEN (a[d] + 1) % nt = b[d] \/ (b[d] + 1) % nt = a[d]
                        ELSE a[d] = b[d] + 1 \/ b[d] = a[d] + 1
Neighbours(g, nt, a, b) == \E d \in 1..3 : Step(g, nt, a, b, d) /\ \A e \in (1..3) \ {d} : a[e] = b[e]

(* the corners c (sequence of ijk) of one cell are a VTK-valid listing of a unit cell *)
Distinct(c) == \A p, q \in 1..Len(c) : p # q => c[p] # c[q]
QuadOK(g, nt, c) == /\ Len(c) = 4 /\ Distinct(c)
                    /\ \A p \in 1..4 : Neighbours(g, nt, c[p], c[(p % 4) + 1])
                    /\ ~Neighbours(g, nt, c[1], c[3])
HexOK(g, nt, c) == /\ Len(c) = 8 /\ Distinct(c)
                   /\ \A p \in 1..4 : Neighbours(g, nt, c[p], c[(p % 4) + 1]) /\ Neighbours(g, nt, c[p + 4], c[(p % 4) + 5])
                   /\ \A p \in 1..4 : Neighbours(g, nt, c[p], c[p + 4])
                   /\ ~Neighbours(g, nt, c[1], c[3]) /\ ~Neighbours(g, nt, c[1], c[7])
CellOK(g, nt, c) == IF g.dim = 2 THEN QuadOK(g, nt, c) ELSE HexOK(g, nt, c)
(* canonical name of the unit cell a corner listing denotes: its set of corners *)
CellKey(c) == {c[p] : p \in 1..Len(c)}

(* filter rule *)
MaxTag(tags) == CHOOSE m \in tags : \A t \in tags : t <= m
Kept(celltags, include) == {j \in 1..Len(celltags) : MaxTag(celltags[j]) >= 0 /\ MaxTag(celltags[j]) \in include}

VARIABLE cfg
Init == cfg \in Configs
Next == UNCHANGED cfg
Emit == PrintT(<<"J", ToJson(Job(cfg))>>)
=============================================================================
