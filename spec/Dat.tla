-------------------------------- MODULE Dat --------------------------------
(***************************************************************************)
(* C17 -- gwb-dat prints exactly the library's values under its column     *)
(* headers.                                                                *)
(*                                                                         *)
(* A configuration is what the option lines of a .dat file say: dim,       *)
(* compositions, grain compositions, number of grains, convert spherical,  *)
(* and the separator used in the rows.                                     *)
(*                                                                         *)
(* Prop : the header is the input names followed by one name per value;    *)
(*        every row echoes its inputs and then lists, under each header    *)
(*        name, the value of that name in the library's reply to the       *)
(*        request <<T, V, C0.., G0.., Tag>>: Slot(cfg, name) is the index  *)
(*        of that value in World::properties' reply (Wb!Offset).           *)
(* Mech : the printer's fixed index arithmetic (main.cc:215-338): the      *)
(*        header strings it prints and output[3+c], start = 3+compositions *)
(*        + gc*n_grains*10 (2D) / 4+c, 4+compositions+... (3D).            *)
(* TLC checks Mech = Prop on every configuration; the deviations present   *)
(* in the code are switched by the constants below (known findings).       *)
(***************************************************************************)
EXTENDS KS, Json, SequencesExt

CONSTANTS AsCode      \* TRUE: transcribe the printer as the code has it (2D offsets, 3D header); FALSE: as Prop demands

(* wsph: the world is spherical.  "convert spherical" only says how the rows give their points; it is
   legitimate with a Cartesian world too (wsph = FALSE, conv = TRUE) *)
(* layout: where the option lines stand.  The options describe the file, not the rows that follow them: they hold
   wherever they stand -- all before the rows ("header"), all after the last row ("trailer"), or spread between
   blocks of rows with a blank line in between ("interleaved"). *)
Layouts == {"header", "trailer", "interleaved"}
(* sci: the rows write their lengths the way the repository's own files do, as "<km>e3" instead of plain metres; the tool
   echoes a row's fields as they were written *)
(* remark: every option line carries a remark after its value ("# compositions = 3 # crust, mantle, sediments"), as some of
   the repository's own data files do; the option still counts *)
Configs == {c \in [dim : {2, 3}, nc : 0..3, ngc : 0..2, ng : 0..3, conv : BOOLEAN, comma : BOOLEAN, wsph : BOOLEAN, layout : Layouts, sci : BOOLEAN, remark : BOOLEAN] :
               /\ (c.conv => c.dim = 3) /\ (c.ngc = 0 => c.ng = 0) /\ (c.wsph => c.conv) /\ (c.layout # "header" => ~c.comma)
               /\ (c.sci => (~c.conv /\ ~c.comma /\ c.layout = "header"))
               /\ (c.remark => (~c.comma /\ ~c.sci /\ c.layout = "header"))}

Request(c) == <<PT, PV>> \o [i \in 1..c.nc |-> PC(i - 1)] \o [g \in 1..c.ngc |-> PG(g - 1, c.ng)] \o <<PTag>>

Inputs(c) == IF c.dim = 2 THEN <<"x", "z", "d">> ELSE <<"x", "y", "z", "d">>
VelNames(c) == IF c.dim = 2 THEN <<"vx", "vz">> ELSE <<"vx", "vy", "vz">>
S(n) == ToString(n)
GrainNames(gc, g) ==
  <<"gs" \o S(gc) \o "-" \o S(g)>> \o
  [k \in 1..9 |-> "gm" \o S(gc) \o "-" \o S(g) \o "[" \o S((k - 1) \div 3) \o ":" \o S((k - 1) % 3) \o "]"]
ValueNames(c) == <<"T">> \o VelNames(c) \o [i \in 1..c.nc |-> "c" \o S(i - 1)]
                 \o FlattenSeq([x \in 1..(c.ngc * c.ng) |-> GrainNames((x - 1) \div c.ng, (x - 1) % c.ng)])
                 \o <<"tag">>

(* Prop: index in the library's reply of the value printed under the k-th value name *)
PropSlots(c) ==
  LET req == Request(c)
      vel == IF c.dim = 2 THEN <<1, 2>> ELSE <<1, 2, 3>>       \* 2D velocities: in-section component, vertical component
      comps == [i \in 1..c.nc |-> Offset(req, 2 + i)]
      grain(x) == LET gc == (x - 1) \div c.ng  g == (x - 1) % c.ng  base == Offset(req, 2 + c.nc + gc + 1)
                  IN <<base + g>> \o [k \in 1..9 |-> base + c.ng + 9 * g + (k - 1)]
  IN <<0>> \o vel \o comps \o FlattenSeq([x \in 1..(c.ngc * c.ng) |-> grain(x)]) \o <<Total(req) - 1>>

(* Mech: the printer *)
MechHeader(c) == (IF c.dim = 3 /\ AsCode THEN <<"x", "y", "z", "d", "g">> ELSE Inputs(c)) \o ValueNames(c)
MechSlots(c) ==
  LET first == IF c.dim = 2 THEN (IF AsCode THEN 3 ELSE 4) ELSE 4
      vel == IF c.dim = 2 THEN <<1, 2>> ELSE <<1, 2, 3>>
      comps == [i \in 1..c.nc |-> first + (i - 1)]
      grain(x) == LET gc == (x - 1) \div c.ng  g == (x - 1) % c.ng  start == first + c.nc + gc * c.ng * 10
                  IN <<start + g>> \o [k \in 1..9 |-> start + c.ng + g * 9 + (k - 1)]
  IN <<0>> \o vel \o comps \o FlattenSeq([x \in 1..(c.ngc * c.ng) |-> grain(x)]) \o <<Total(Request(c)) - 1>>

PropHeader(c) == Inputs(c) \o ValueNames(c)
MechRefinesProp(c) == MechHeader(c) = PropHeader(c) /\ MechSlots(c) = PropSlots(c)
AllRefine == \A c \in Configs : MechRefinesProp(c)

(***************************************************************************)
(* Rendering: the .dat file, the world, the rows                           *)
(***************************************************************************)
ProbesKm == << <<100, 250, 50>>, <<250, 250, 100>>, <<600, 250, 120>>, <<800, 250, 130>>, <<300, 250, 20>>, <<1500, 250, 50>>, <<400, 250, 0>> >>
Doc(c) == World(IF c.wsph THEN Spherical("begin segment") ELSE Cartesian, KSFeatures(c.wsph))
          @@ ("cross section" :> <<XY(c.wsph, 0, 250), XY(c.wsph, 1000, 250)>>)

(* rows <<radius km, longitude, latitude, depth as written>> that land inside the Cartesian kitchen sink *)
CartConvRows == << <<1000, 45, 60, "133974.6">>, <<1100, 10, 50, "157351.1">>, <<950, 20, 70, "107292">>, <<1000, 80, 85, "3805.3">>,
                   <<3000, 45, 45, "50000">>, <<1000, 45, 89, "152.3">>, <<1200, 15, 40, "228654.9">> >>

(* the fields of data row i as they are written into the file (strings), and the query they denote *)
RowFields(c, i) ==
  LET pr == ProbesKm[i] IN
  IF c.sci THEN (IF c.dim = 2 THEN <<S(pr[1]) \o "e3", S(H \div Km - pr[3]) \o "E+03", S(pr[3]) \o "e3">>
                 ELSE <<S(pr[1]) \o "e3", S(pr[2]) \o "e+3", S(H \div Km - pr[3]) \o "E3", S(pr[3]) \o ".0e3">>)
  ELSE IF c.dim = 2 THEN <<S(pr[1] * Km), S(H - pr[3] * Km), S(pr[3] * Km)>>
  ELSE IF c.conv /\ ~c.wsph THEN <<S(CartConvRows[i][1] * Km), S(CartConvRows[i][2]), S(CartConvRows[i][3]), CartConvRows[i][4]>>
  ELSE IF c.conv THEN <<S(R - pr[3] * Km), S(pr[1] \div 100) \o "." \o (IF (pr[1] % 100) < 10 THEN "0" ELSE "") \o S(pr[1] % 100), "2.5", S(pr[3] * Km)>>
  ELSE <<S(pr[1] * Km), S(pr[2] * Km), S(H - pr[3] * Km), S(pr[3] * Km)>>
RowQuery(c, i) ==
  LET pr == ProbesKm[i] IN
  (IF c.dim = 2 THEN [p |-> <<pr[1] * Km, H - pr[3] * Km>>, dim |-> 2]
   ELSE IF c.conv /\ ~c.wsph THEN [sph |-> <<CartConvRows[i][1] * Km, CartConvRows[i][2], CartConvRows[i][3]>>, dim |-> 3, depthstr |-> CartConvRows[i][4]]
   ELSE IF c.conv THEN [sph |-> <<R - pr[3] * Km, Rat(pr[1], 100), Rat(250, 100)>>, dim |-> 3]
   ELSE [p |-> <<pr[1] * Km, pr[2] * Km, H - pr[3] * Km>>, dim |-> 3])
  @@ [op |-> "q", h |-> 1, depth |-> pr[3] * Km, props |-> Request(c), save |-> "row" \o S(i)]

Rk(c) == IF c.remark THEN " # a remark, with = signs and numbers 7 9" ELSE ""
OptionLines(c) == << "# dim = " \o S(c.dim) \o Rk(c), "# compositions = " \o S(c.nc) \o Rk(c) >>
                  \o (IF c.ngc > 0 THEN <<"# grain compositions = " \o S(c.ngc) \o Rk(c), "# number of grains = " \o S(c.ng) \o Rk(c)>> ELSE <<>>)
                  \o (IF c.conv THEN <<"# convert spherical = true" \o Rk(c)>> ELSE <<>>)
                  \o <<"# a comment line that has to be ignored">>

(* the file, line by line: [opt |-> text] or [row |-> fields] *)
FileLines(c) ==
  LET os == OptionLines(c)
      opts(a, b) == [k \in 1..(b - a + 1) |-> [opt |-> os[a + k - 1]]]
      rows(a, b) == [k \in 1..(b - a + 1) |-> [row |-> RowFields(c, a + k - 1)]]
      n == Len(ProbesKm)
  IN CASE c.layout = "header"  -> opts(1, Len(os)) \o rows(1, n)
       [] c.layout = "trailer" -> rows(1, n) \o opts(1, Len(os))
       [] c.layout = "interleaved" -> opts(1, 1) \o rows(1, 3) \o <<[opt |-> ""]>> \o opts(2, Len(os)) \o rows(4, n)

Job(c) ==
  [config |-> c, options |-> OptionLines(c), rows |-> [i \in 1..Len(ProbesKm) |-> RowFields(c, i)], file |-> FileLines(c),
   header |-> PropHeader(c), slots |-> PropSlots(c), mechslots |-> MechSlots(c), ninputs |-> Len(Inputs(c)),
   mech_conforms |-> MechRefinesProp(c),
   behaviour |-> [id |-> <<"dat", c>>, labels |-> <<"dat">>,
                  steps |-> <<[op |-> "create", h |-> 1, wb |-> Doc(c), default_seed |-> TRUE]>> \o [i \in 1..Len(ProbesKm) |-> RowQuery(c, i)]],
   wb |-> Doc(c)]

(***************************************************************************)
(* Malformed rows.  A row must have dim + 1 fields and every field must be *)
(* a number from its first to its last character.  Prop: a file with such  *)
(* a row is reported (the run fails and names the row or the field), never *)
(* answered as if the field had been some other number.  bad = the field   *)
(* the report has to name ("" for a wrong field count: the line is named). *)
(***************************************************************************)
Malformed ==
  << [dim |-> 2, fields |-> <<"1", "2">>, bad |-> ""], [dim |-> 2, fields |-> <<"1", "2", "3", "4">>, bad |-> ""],
     [dim |-> 3, fields |-> <<"1", "2", "3">>, bad |-> ""], [dim |-> 3, fields |-> <<"1", "2", "3", "4", "5">>, bad |-> ""],
     [dim |-> 3, fields |-> <<"5.0d5", "50e3", "900e3", "100e3">>, bad |-> "5.0d5"],        \* Fortran exponent
     [dim |-> 3, fields |-> <<"5.0e5", "50e3", "900e3", "3e2km">>, bad |-> "3e2km"],        \* a unit glued to the depth
     [dim |-> 3, fields |-> <<"100e3", "12abc", "900e3", "100e3">>, bad |-> "12abc"],
     [dim |-> 3, fields |-> <<"100e3", "50e3", "1.5.2", "100e3">>, bad |-> "1.5.2"],
     [dim |-> 2, fields |-> <<"100e3", "900e3", "7;">>, bad |-> "7;"],
     [dim |-> 2, fields |-> <<"1e3x", "900e3", "100e3">>, bad |-> "1e3x"],
     [dim |-> 2, fields |-> <<"abc", "900e3", "100e3">>, bad |-> "abc"],
     [dim |-> 3, fields |-> <<"100e3", "50e3", "900e3", "--5">>, bad |-> "--5"] >>
EmitMalformed == PrintT(<<"X", ToJson(Malformed)>>)

VARIABLE cfg
Init == cfg \in Configs
Next == UNCHANGED cfg
Emit == PrintT(<<"J", ToJson(Job(cfg))>>)
SlotsWellFormed == /\ Len(PropSlots(cfg)) = Len(ValueNames(cfg))
                   /\ \A k \in 1..Len(PropSlots(cfg)) : PropSlots(cfg)[k] < Total(Request(cfg))
=============================================================================
