------------------------------- MODULE C01 -------------------------------
(***************************************************************************)
(* C01 -- query answers are a pure function of (file, point, depth,        *)
(* property); batching lays the blocks out in request order.               *)
(*                                                                         *)
(* Prop : Reply(w, q, props) = Block(w,q,props[1]) \o ... \o Block(w,q,props[n]) *)
(*        where Block is an uninterpreted function of (file, point, prop)  *)
(*        only; block i starts at Offset(props, i) (Wb.tla).               *)
(* Mech : the two offset counters of the code -- the 3D evaluator's        *)
(*        entry_in_output recurrence (world.cc:421-480) and the 2D         *)
(*        wrapper's own counter that re-walks the list to project          *)
(*        velocities (world.cc:350-398) -- and the forced-surface early    *)
(*        return.                                                          *)
(*                                                                         *)
(* Two state machines share this module:                                   *)
(*  LInit/LNext  builds every property list over Alphabet up to MaxLen;    *)
(*               invariant Mech = Prop for each; each state is emitted as  *)
(*               one behaviour (batched query at every target, block-wise  *)
(*               bit identity with the stand-alone reference).             *)
(*  HInit/HNext  the world life cycle over two handles (Create / Release / *)
(*               Batch / Single); a history variable is replayed.          *)
(***************************************************************************)
EXTENDS KS, Json, SequencesExt, IOUtils

CONSTANTS MaxLen,      \* longest property list
          MaxHist,     \* longest life-cycle history
          PreFixF1     \* TRUE: transcribe the 2D counter as it was before the fix (+10 per grains request)

Alphabet == <<PT, PC(0), PC(1), PG(0, 1), PG(0, 2), PG(1, 3), PTag, PV>>
AlphaSet == {Alphabet[i] : i \in 1..Len(Alphabet)}

(***************************************************************************)
(* The worlds.  One configuration with every feature type, overlapping,    *)
(* each with temperature, composition, grains and velocity models so that  *)
(* every block of a reply is distinguishable.  Rendered Cartesian and      *)
(* spherical (1000 km <-> 10 degrees), with/without cross section, with/   *)
(* without forced surface temperature.                                     *)
(***************************************************************************)
KS(sph, cross, force) ==
     World(IF sph THEN Spherical("begin segment") ELSE Cartesian, Features(sph))
  @@ Opt(cross, "cross section" :> <<XY(sph,0,250), XY(sph,1000,250)>>)
  @@ Opt(force, ("force surface temperature" :> TRUE) @@ ("surface temperature" :> 273))

WorldIds == 1..6
WSph(w)   == w \in {4, 5, 6}
WCross(w) == w \in {2, 3, 5, 6}
WForce(w) == w \in {3, 6}
Doc(w) == KS(WSph(w), WCross(w), WForce(w))
DocName(w) == "ks" \o ToString(w)

(* probe locations <<x km, y km, depth km>>; the y = 250 ones lie on the cross section *)
Probes == << <<100, 100, 50>>,     \* continent only
             <<250, 250, 100>>,    \* continent + mantle + plume
             <<600, 250, 120>>,    \* ocean + mantle
             <<800, 250, 130>>,    \* ocean + mantle + slab
             <<300, 250, 20>>,     \* continent + fault
             <<1500, 250, 50>>,    \* background
             <<250, 250, 0>>,      \* surface (forced surface temperature)
             <<800, 400, 130>> >>  \* off the section: 3D only

Point3(w, pr) == IF WSph(w)
                 THEN [sph |-> <<R - pr[3]*Km, Rat(pr[1], 100), Rat(pr[2], 100)>>]
                 ELSE [p |-> <<pr[1]*Km, pr[2]*Km, H - pr[3]*Km>>]
(* 2D: Cartesian (x, z); spherical (r cos a, r sin a) with a the angle along the section *)
Point2(w, pr) == IF WSph(w)
                 THEN [p |-> <<Mul(R - pr[3]*Km, Cos(Rad(Rat(pr[1], 100)))), Mul(R - pr[3]*Km, Sin(Rad(Rat(pr[1], 100))))>>]
                 ELSE [p |-> <<pr[1]*Km, H - pr[3]*Km>>]

Target(w, i, d) == (IF d = 3 THEN Point3(w, Probes[i]) ELSE Point2(w, Probes[i]))
                   @@ [h |-> 100 + w, dim |-> d, depth |-> Probes[i][3]*Km,
                       pre |-> "R/" \o ToString(w) \o "/" \o ToString(i) \o "/" \o ToString(d) \o "/"]

TargetIdx == {<<w, i, d>> \in WorldIds \X (1..Len(Probes)) \X {2, 3} :
                 (d = 2 => (WCross(w) /\ Probes[i][2] = 250))}
Targets == [t \in TargetIdx |-> Target(t[1], t[2], t[3])]

(***************************************************************************)
(* Prologue: the documents, the worlds (one pristine instance 200+w used   *)
(* only for the reference table, one long-lived instance 100+w that every  *)
(* later behaviour queries), and the reference table R/<w>/<i>/<d>/<prop>  *)
(* of stand-alone single-property requests.                                *)
(***************************************************************************)
RefStep(t, a) == [op |-> "q", props |-> <<a>>, save |-> Targets[t].pre \o PropName(a),
                  expect |-> <<[k |-> "len", n |-> Size(a)]>>]
                 @@ [Targets[t] EXCEPT !.h = 200 + t[1]]


Prologue ==
  [id |-> "prologue", global |-> TRUE,
   steps |->   [w \in WorldIds |-> [op |-> "defdoc", name |-> DocName(w), wb |-> Doc(w)]]
            \o [w \in WorldIds |-> [op |-> "create", h |-> 200 + w, doc |-> DocName(w)]]
            \o [w \in WorldIds |-> [op |-> "create", h |-> 100 + w, doc |-> DocName(w)]]
            \o <<[op |-> "deftargets", name |-> "all",
                  targets |-> [i \in 1..Cardinality(TargetIdx) |-> Targets[SetToSeq(TargetIdx)[i]]]]>>
            \o LET ts == SetToSeq(TargetIdx \X AlphaSet)
               IN [i \in 1..Len(ts) |-> RefStep(ts[i][1], ts[i][2])] ]

(***************************************************************************)
(* Mechanism, as the code has it.                                          *)
(***************************************************************************)
(* 3D evaluator: entry_in_output[i] = output.size() when request i is reached *)
RECURSIVE Mech3D(_, _, _)
Mech3D(props, i, outsize) ==
  IF i > Len(props) THEN <<>>
  ELSE <<outsize>> \o Mech3D(props, i + 1, outsize + Size(props[i]))

(* 2D wrapper: separate counter, walks the list again to find velocity blocks *)
Step2D(p) == CASE p[1] = 1 -> 1 [] p[1] = 2 -> 1
               [] p[1] = 3 -> IF PreFixF1 THEN 10 ELSE 10 * p[3]
               [] p[1] = 4 -> 1 [] p[1] = 5 -> 3
RECURSIVE Mech2D(_, _, _)
Mech2D(props, i, counter) ==
  IF i > Len(props) THEN <<>>
  ELSE <<counter>> \o Mech2D(props, i + 1, counter + Step2D(props[i]))

PropOffsets(props) == [i \in 1..Len(props) |-> Offset(props, i)]

(***************************************************************************)
(* Layout machine                                                          *)
(***************************************************************************)
VARIABLES props, hist, bound      \* bound: Handles -> world id or 0 (life-cycle machine only)
vars == <<props, hist, bound>>

LInit == props = <<>> /\ hist = <<>> /\ bound = <<>>
LNext == /\ Len(props) < MaxLen
         /\ \E a \in AlphaSet : props' = Append(props, a)
         /\ UNCHANGED <<hist, bound>>

Layout3DOK == Mech3D(props, 1, 0) = PropOffsets(props)
(* the 2D counter matters where it is used: at velocity requests *)
Layout2DOK == \A i \in 1..Len(props) : props[i][1] = 5 => Mech2D(props, 1, 0)[i] = Offset(props, i)
SizeOK     == Total(props) = SumSeq([i \in 1..Len(props) |-> Size(props[i])])

LayoutBehaviour ==
  [id |-> <<"layout", props>>, labels |-> <<"layout">>,
   steps |-> << [op |-> "q", targets |-> "all", props |-> props,
                 expect |-> <<[k |-> "len", n |-> Total(props)], [k |-> "size"]>>
                            \o [i \in 1..Len(props) |->
                                  [k |-> "bits", at |-> Offset(props, i), n |-> Size(props[i]), ref |-> PropName(props[i])]]] >>]

EmitLayout == props = <<>> \/ PrintT(<<"B", ToJson(LayoutBehaviour)>>)
EmitPrologue == PrintT(<<"B", ToJson(Prologue)>>)

(***************************************************************************)
(* Life-cycle machine: handles 1..2, each bound to a world id or dead.     *)
(* The abstract state has no component a query could change: that IS the   *)
(* property.  The history is what gets replayed against the code.          *)
(***************************************************************************)
Handles == {1, 2}
HWorlds == {3, 6}                       \* the two richest worlds (cross section + forced surface)
HLists  == {<<PT>>, <<PG(0, 2), PV, PT>>, <<PC(0), PTag, PG(1, 3), PC(1)>>}
HProbes == {2, 4, 7}


HInit == bound = [h \in Handles |-> 0] /\ hist = <<>> /\ props = <<>>

Create(h, w) == /\ bound[h] = 0
                /\ bound' = [bound EXCEPT ![h] = w]
                /\ hist' = Append(hist, [op |-> "create", h |-> h, doc |-> DocName(w)])
Release(h)   == /\ bound[h] # 0
                /\ bound' = [bound EXCEPT ![h] = 0]
                /\ hist' = Append(hist, [op |-> "release", h |-> h])
(* the reply of a batched request: Prop says it only depends on (file, target, list) *)
BatchStep(h, w, i, d, ps) ==
   [Target(w, i, d) EXCEPT !.h = h] @@
   [op |-> "q", props |-> ps,
    expect |-> <<[k |-> "len", n |-> Total(ps)], [k |-> "size"]>>
               \o [j \in 1..Len(ps) |-> [k |-> "bits", at |-> Offset(ps, j), n |-> Size(ps[j]), ref |-> PropName(ps[j])]]]
Batch(h, i, d, ps) == /\ bound[h] # 0
                      /\ UNCHANGED bound
                      /\ hist' = Append(hist, BatchStep(h, bound[h], i, d, ps))
(* single-property entry points temperature() / composition() / grains() *)
SingleStep(h, w, i, d, a) ==
   [Target(w, i, d) EXCEPT !.h = h] @@
   [op |-> "q", props |-> <<a>>,
    via |-> CASE a[1] = 1 -> "temperature" [] a[1] = 2 -> "composition" [] a[1] = 3 -> "grains",
    expect |-> <<[k |-> "len", n |-> Size(a)], [k |-> "bits", at |-> 0, n |-> Size(a), ref |-> PropName(a)]>>]
Single(h, i, d, a) == /\ bound[h] # 0
                      /\ UNCHANGED bound
                      /\ hist' = Append(hist, SingleStep(h, bound[h], i, d, a))

(* a history is emitted by its own final step (so that simulation emits the path it walked, not every candidate successor) *)
Finish == Len(hist) = MaxHist /\ props = <<>> /\ props' = <<PT>> /\ UNCHANGED <<hist, bound>>
HNext == \/ Finish
         \/ /\ Len(hist) < MaxHist
            /\ UNCHANGED props
            /\ \/ \E h \in Handles, w \in HWorlds : Create(h, w)
               \/ \E h \in Handles : Release(h)
               \/ \E h \in Handles, i \in HProbes, d \in {2, 3}, ps \in HLists : Batch(h, i, d, ps)
               \/ \E h \in Handles, i \in HProbes, d \in {2, 3}, a \in {PT, PC(1), PG(0, 2)} : Single(h, i, d, a)

(* Prop: an abstract query result is a function of the bound file only -- every query step of a
   history carries the reference prefix of the world its handle is bound to at that moment *)
HistoryWellFormed ==
  \A k \in 1..Len(hist) : hist[k].op = "q" => \E w \in HWorlds, i \in HProbes, d \in {2,3} : hist[k].pre = Target(w, i, d).pre

HistBehaviour == [id |-> <<"hist", Len(hist)>>, labels |-> <<"history">>, steps |-> hist]
EmitHist == props = <<>> \/ PrintT(<<"B", ToJson(HistBehaviour)>>)

(***************************************************************************)
(* Opaque-file machine: the repository's own world files (every model      *)
(* type, variable depth surfaces, different global constants) as file ids  *)
(* 1..NF with NP query targets each (the points of their own .dat files;   *)
(* the driver defines target list "F<f>" and the references                *)
(* "F/<f>/<i>/<prop>", each computed in a process of its own so that no    *)
(* other world has ever been touched there).  Three handles; the history   *)
(* interleaves worlds of different files alive at the same time.           *)
(***************************************************************************)
NF == atoi(IF "C01_NF" \in DOMAIN IOEnv THEN IOEnv.C01_NF ELSE "0")
NP == atoi(IF "C01_NP" \in DOMAIN IOEnv THEN IOEnv.C01_NP ELSE "0")
FHandles == {1, 2, 3}
FAlphabet == <<PT, PC(0), PC(1), PG(0, 2), PTag, PV>>
FLists == {<<PT>>, <<PV, PT, PC(0)>>, <<PC(1), PTag, PG(0, 2), PV>>, <<PG(0, 2), PG(0, 2), PT>>}
FName(f) == "F" \o ToString(f)
FPre(f, i) == "F/" \o ToString(f) \o "/" \o ToString(i) \o "/"
FBatchStep(h, f, i, ps) ==
   [op |-> "q", h |-> h, tsel |-> <<FName(f), i>>, pre |-> FPre(f, i), props |-> ps, may_throw |-> TRUE,
    expect |-> <<[k |-> "len", n |-> Total(ps)], [k |-> "size"]>>
               \o [j \in 1..Len(ps) |-> [k |-> "bits", at |-> Offset(ps, j), n |-> Size(ps[j]), ref |-> PropName(ps[j])]]]
FSingleStep(h, f, i, a) ==
   [op |-> "q", h |-> h, tsel |-> <<FName(f), i>>, pre |-> FPre(f, i), props |-> <<a>>, may_throw |-> TRUE,
    via |-> CASE a[1] = 1 -> "temperature" [] a[1] = 2 -> "composition" [] a[1] = 3 -> "grains",
    expect |-> <<[k |-> "len", n |-> Size(a)], [k |-> "bits", at |-> 0, n |-> Size(a), ref |-> PropName(a)]>>]

FInit == bound = [h \in FHandles |-> 0] /\ hist = <<>> /\ props = <<>>
FCreate(h, f) == /\ bound[h] = 0 /\ bound' = [bound EXCEPT ![h] = f]
                 /\ hist' = Append(hist, [op |-> "create", h |-> h, doc |-> FName(f), default_seed |-> TRUE])
FRelease(h) == /\ bound[h] # 0 /\ bound' = [bound EXCEPT ![h] = 0]
               /\ hist' = Append(hist, [op |-> "release", h |-> h])
FBatch(h, i, ps) == /\ bound[h] # 0 /\ UNCHANGED bound /\ hist' = Append(hist, FBatchStep(h, bound[h], i, ps))
FSingle(h, i, a) == /\ bound[h] # 0 /\ UNCHANGED bound /\ hist' = Append(hist, FSingleStep(h, bound[h], i, a))
FNext == \/ Finish
         \/ /\ Len(hist) < MaxHist /\ UNCHANGED props
            /\ \/ \E h \in FHandles, f \in 1..NF : FCreate(h, f)
               \/ \E h \in FHandles : FRelease(h)
               \/ \E h \in FHandles, i \in 1..NP, ps \in FLists : FBatch(h, i, ps)
               \/ \E h \in FHandles, i \in 1..NP, a \in {PT, PC(0), PG(0, 2)} : FSingle(h, i, a)
EmitFile == props = <<>> \/ PrintT(<<"B", ToJson([id |-> <<"files", Len(hist)>>, labels |-> <<"file-history">>, steps |-> hist])>>)

(* all files of a chunk alive at once, queried round-robin: every target, the full alphabet batched *)
Chunk(c, size) == {f \in 1..NF : (f - 1) \div size = c}
RoundRobin(c, size) ==
  LET fs == SetToSeq(Chunk(c, size))
      all == [k \in 1..Len(FAlphabet) |-> FAlphabet[k]]
  IN [id |-> <<"alive", c>>, labels |-> <<"all-alive">>,
      steps |-> [k \in 1..Len(fs) |-> [op |-> "create", h |-> k, doc |-> FName(fs[k]), default_seed |-> TRUE]]
                \o FlattenSeq([i \in 1..NP |-> [k \in 1..Len(fs) |-> FBatchStep(k, fs[k], i, all)]])
                \o FlattenSeq([i \in 1..NP |-> [k \in 1..Len(fs) |-> FSingleStep(Len(fs) + 1 - k, fs[Len(fs) + 1 - k], i, PT)]])]
EmitRoundRobin == \A c \in 0..((NF - 1) \div 8) : PrintT(<<"B", ToJson(RoundRobin(c, 8))>>)
=============================================================================
