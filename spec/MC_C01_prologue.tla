---- MODULE MC_C01_prologue ----
EXTENDS C01
ASSUME EmitPrologue
====
