-------------------------------- MODULE Slab --------------------------------
(***************************************************************************)
(* C06 -- slab and fault geometry equals the elementary planar             *)
(* construction for straight trenches (and, with Culling.tla, C07).        *)
(*                                                                         *)
(* In the vertical plane perpendicular to a straight trench, with          *)
(* coordinates (s, z) = (horizontal distance towards the dip-point side,   *)
(* depth), the surface starts at (0, min depth) and follows its segments;  *)
(* segment i runs for length L_i in direction (cos d_i, sin d_i).  Dips    *)
(* are taken from the Pythagorean family so that cosine and sine are       *)
(* rational (x 5: integers) and everything TLC decides is exact:           *)
(*    dip index   1: atan(3/4)  2: atan(4/3)  3: 90  4: 180-atan(4/3)  5: 180-atan(3/4)   *)
(* For a point p and segment i with start a_i:                             *)
(*    t = (p - a_i).(cos, sin)   along the segment                         *)
(*    d = (p - a_i).(-sin, cos)  below the surface (into the slab)         *)
(* The foot lies on segment i iff 0 <= t <= L_i; the distance from the     *)
(* surface is the d of the valid segment with the smallest |d|, the        *)
(* distance along the surface L_1 + ... + L_{i-1} + t.  Points for which   *)
(* two valid segments tie, whose foot falls exactly on a segment end, or   *)
(* which lie in the wedge outside a convex kink (no valid segment, between *)
(* two segments), are labelled ambiguous and not asserted.  Membership: top truncation <= d <= thickness (fault:     *)
(* |d| <= thickness / 2), 0 <= along <= total length, foot inside the      *)
(* trench, min depth <= depth <= max depth; it is asserted only where no   *)
(* inequality holds with equality.                                         *)
(***************************************************************************)
EXTENDS Wb, Json, SequencesExt

CONSTANTS MaxSegments, Kinds

(* x 5: <<cos, sin>> *)
Dip5 == << <<4, 3>>, <<3, 4>>, <<0, 5>>, <<-3, 4>>, <<-4, 3>> >>
DipTerm(i) == CASE i = 1 -> Un("rad2deg", Bin("atan2", 3, 4)) [] i = 2 -> Un("rad2deg", Bin("atan2", 4, 3)) [] i = 3 -> 90
                [] i = 4 -> Sub(180, Un("rad2deg", Bin("atan2", 4, 3))) [] i = 5 -> Sub(180, Un("rad2deg", Bin("atan2", 3, 4)))

(* lattice unit 10 km.  Trench directions x 5 (unit vectors): along y, and two rotated ones *)
TrenchDirs == << <<0, 5>>, <<3, 4>>, <<4, -3>> >>
Sides == {1, -1}                                   \* which side the dip point is on: n = side * (t rotated clockwise)

Seg == [len : {5, 10}, dip : 1..5]                 \* length in lattice units (multiples of 5)

(***************************************************************************)
(* Geometry in the plane                                                   *)
(***************************************************************************)
RECURSIVE Start(_, _)
(* start of segment i, x 5: <<s5, z5>> *)
Start(c, i) == IF i = 1 THEN <<0, 5 * c.mind>>
               ELSE LET a == Start(c, i - 1) IN <<a[1] + c.segs[i-1].len * Dip5[c.segs[i-1].dip][1], a[2] + c.segs[i-1].len * Dip5[c.segs[i-1].dip][2]>>
RECURSIVE LenBefore(_, _)
LenBefore(c, i) == IF i = 1 THEN 0 ELSE LenBefore(c, i - 1) + c.segs[i-1].len
TotalLen(c) == LenBefore(c, Len(c.segs) + 1)

(* for point p = <<s, z>> (lattice units): x25 values t25 = 25 t, d25 = 25 d *)
T25(c, i, p) == (5 * p[1] - Start(c, i)[1]) * Dip5[c.segs[i].dip][1] + (5 * p[2] - Start(c, i)[2]) * Dip5[c.segs[i].dip][2]
D25(c, i, p) == (5 * p[2] - Start(c, i)[2]) * Dip5[c.segs[i].dip][1] - (5 * p[1] - Start(c, i)[1]) * Dip5[c.segs[i].dip][2]
ValidSeg(c, i, p) == T25(c, i, p) >= 0 /\ T25(c, i, p) <= 25 * c.segs[i].len
Abs(x) == IF x < 0 THEN -x ELSE x
ValidSet(c, p) == {i \in 1..Len(c.segs) : ValidSeg(c, i, p)}
Best(c, p) == {i \in ValidSet(c, p) : \A j \in ValidSet(c, p) : Abs(D25(c, i, p)) <= Abs(D25(c, j, p))}
(* a foot exactly on a segment end is a rounding coin-flip between "on this segment" and "not": not asserted *)
OnEnd(c, p) == \E i \in 1..Len(c.segs) : T25(c, i, p) = 0 \/ T25(c, i, p) = 25 * c.segs[i].len
Class(c, p) == IF OnEnd(c, p) THEN "segment-end"
               ELSE IF ValidSet(c, p) = {} THEN
                    IF T25(c, 1, p) < 0 /\ \A i \in 2..Len(c.segs) : T25(c, i, p) < 0 THEN "before-start"
                    ELSE IF \A i \in 1..Len(c.segs) : T25(c, i, p) > 25 * c.segs[i].len THEN "beyond-tip"
                    ELSE "wedge"
               ELSE IF Cardinality(Best(c, p)) > 1 THEN "tie" ELSE "on-segment"
BestSeg(c, p) == CHOOSE i \in Best(c, p) : TRUE

(* membership of a point at depth z whose foot is inside the trench; "unknown" where an inequality is tight *)
Member(c, p) ==
  LET cls == Class(c, p) IN
  IF p[2] < c.mind \/ p[2] > c.maxd THEN "out"            \* min depth <= depth <= max depth, both measured from the surface
  ELSE IF p[2] = c.maxd THEN "unknown"
  ELSE IF cls \in {"before-start", "beyond-tip"} THEN "out"
  ELSE IF cls # "on-segment" THEN "unknown"
  ELSE LET i == BestSeg(c, p)
           d == D25(c, i, p)
           t == T25(c, i, p)
           L == c.segs[i].len
           \* local thickness / truncation x 25 L:  up * 25 L + t25 * (down - up);  d x 25 L = d25 * L
           thickL == c.thick[1] * 25 * L + t * (c.thick[2] - c.thick[1])
           truncL == c.trunc[1] * 25 * L + t * (c.trunc[2] - c.trunc[1])
           dL == d * L
           tight == (c.kind # "fault" /\ (dL = truncL \/ dL = thickL)) \/ (c.kind = "fault" /\ 2 * Abs(dL) = thickL)
                    \/ (i = 1 /\ t = 0) \/ (i = Len(c.segs) /\ t = 25 * c.segs[i].len) \/ p[2] = c.mind
       IN IF tight THEN "unknown"
          ELSE IF (IF c.kind = "fault" THEN 2 * Abs(dL) < thickL ELSE (dL > truncL /\ dL < thickL)) THEN "in" ELSE "out"

(***************************************************************************)
(* Rendering                                                               *)
(***************************************************************************)
U == 10 * Km
HM == 2000 * Km
O == <<20, 10>>                                  \* trench start (lattice units)
TDir(c) == TrenchDirs[c.dir]
NDir(c) == <<c.side * TDir(c)[2], 0 - c.side * TDir(c)[1]>>      \* x 5
TrenchLen5 == 10                                  \* trench length = 50 units = 10 * 5
Pos(c, s, w) == <<Rat((5 * O[1] + w * TDir(c)[1] + s * NDir(c)[1]) * U, 5), Rat((5 * O[2] + w * TDir(c)[2] + s * NDir(c)[2]) * U, 5)>>

Doc(c) ==
  World(Cartesian,
        <<Line(IF c.kind = "fault" THEN "fault" ELSE "subducting plate", "line",
               IF c.mid THEN <<Pos(c, 0, 0), Pos(c, 0, 25), Pos(c, 0, 5 * TrenchLen5)>> ELSE <<Pos(c, 0, 0), Pos(c, 0, 5 * TrenchLen5)>>,
               Pos(c, 20, 25), c.mind * U, c.maxd * U,
               [i \in 1..Len(c.segs) |-> Segment(c.segs[i].len * U, <<c.thick[1] * U, c.thick[2] * U>>, <<c.trunc[1] * U, c.trunc[2] * U>>, <<DipTerm(c.segs[i].dip)>>)],
               <<>>, <<CUniform(<<1>>, "replace") @@ ((IF c.kind = "fault" THEN "min distance fault center" ELSE "min distance slab top") :> -1000 * Km)>>, <<>>, <<>>)>>)

ProbeS == {5 * k : k \in -3..6}
ProbeZ == {5 * k : k \in 0..7} \cup {2, 13}
ProbeW == {10, 24, 25, 40}

Rows(c) ==
  LET ps == SetToSeq(ProbeS \X ProbeZ \X ProbeW) IN
  [k \in 1..Len(ps) |->
     LET p == <<ps[k][1], ps[k][2]>>
         xy == Pos(c, ps[k][1], ps[k][3])
         cls == Class(c, p)
         i == IF cls = "on-segment" THEN BestSeg(c, p) ELSE 1
         m == Member(c, p)
     IN [xy |-> xy, z |-> ps[k][2], cls |-> cls,
         has |-> cls = "on-segment",
         from |-> Rat(D25(c, i, p) * U, 25),
         along |-> Rat((25 * LenBefore(c, i) + T25(c, i, p)) * U, 25),
         member |-> m]]

Behaviour(c) ==
  LET rs == Rows(c) IN
  [id |-> <<"slab", c>>, labels |-> <<"slab-geometry", c.kind, "segs" \o ToString(Len(c.segs)), IF c.mid THEN "collinear-middle-coordinate" ELSE "two-coordinates">>,
   steps |-> << [op |-> "create", h |-> 1, wb |-> Doc(c)],
                [op |-> "dtable", h |-> 1, name |-> "line", rel |-> Dec(1, -6), abs |-> 1,
                 rows |-> [k \in 1..Len(rs) |-> <<rs[k].xy[1], rs[k].xy[2], HM - rs[k].z * U, rs[k].z * U,
                                                  IF rs[k].has THEN rs[k].from ELSE [null |-> TRUE],
                                                  IF rs[k].has THEN rs[k].along ELSE [null |-> TRUE]>>]],
                [op |-> "qtable", h |-> 1, dim |-> 3, props |-> <<PC(1), PTag>>,
                 checks |-> <<[k |-> "eq", at |-> 0, col |-> 4],
                              [k |-> "tagname", at |-> 1, col |-> 4, names |-> <<FALSE, IF c.kind = "fault" THEN "fault" ELSE "subducting plate">>]>>,
                 rows |-> [k \in 1..Len(rs) |-> <<rs[k].xy[1], rs[k].xy[2], HM - rs[k].z * U, rs[k].z * U,
                                                  CASE rs[k].member = "in" -> 1 [] rs[k].member = "out" -> 0 [] OTHER -> [null |-> TRUE]>>]] >>]

(***************************************************************************)
(* C07 -- the acceleration shortcuts of slabs and faults (Mech), on this    *)
(* family: a point is discarded before any geometry is computed if          *)
(*   depth - min depth > maximum total length + maximum thickness           *)
(*   (PreFixF5: depth > ...), or if its surface position is outside the     *)
(*   bounding box of the trench coordinates extended by that same buffer.   *)
(* Prop: a member is never discarded.                                       *)
(***************************************************************************)
CONSTANT PreFixF5
MaxThick(c) == IF c.thick[1] > c.thick[2] THEN c.thick[1] ELSE c.thick[2]
Buffer(c) == TotalLen(c) + MaxThick(c)
(* surface position of plane point (s, w) x 5 and the trench bounding box x 5, in lattice units *)
SurfX5(c, s, w) == 5 * O[1] + w * TDir(c)[1] + s * NDir(c)[1]
SurfY5(c, s, w) == 5 * O[2] + w * TDir(c)[2] + s * NDir(c)[2]
Min2(a, b) == IF a < b THEN a ELSE b
Max2(a, b) == IF a > b THEN a ELSE b
MechCulled(c, s, z, w) ==
  \/ (IF PreFixF5 THEN z ELSE z - c.mind) > Buffer(c)
  \/ SurfX5(c, s, w) < Min2(SurfX5(c, 0, 0), SurfX5(c, 0, 50)) - 5 * Buffer(c)
  \/ SurfX5(c, s, w) > Max2(SurfX5(c, 0, 0), SurfX5(c, 0, 50)) + 5 * Buffer(c)
  \/ SurfY5(c, s, w) < Min2(SurfY5(c, 0, 0), SurfY5(c, 0, 50)) - 5 * Buffer(c)
  \/ SurfY5(c, s, w) > Max2(SurfY5(c, 0, 0), SurfY5(c, 0, 50)) + 5 * Buffer(c)
CullingSound(c) == \A s \in ProbeS, z \in ProbeZ, w \in ProbeW : Member(c, <<s, z>>) = "in" => ~MechCulled(c, s, z, w)

(* differential replay: the same world with the shortcuts neutralised (GWB_VERIF hook) must answer bit-identically,
   on a grid that extends well beyond the buffer *)
CullRows(c) == LET ps == SetToSeq({5 * k : k \in -6..7} \X {4 * k : k \in 0..9} \X {-20, 10, 25, 70}) IN
               [k \in 1..Len(ps) |-> <<Pos(c, ps[k][1], ps[k][3])[1], Pos(c, ps[k][1], ps[k][3])[2], HM - ps[k][2] * U, ps[k][2] * U>>]
CullBehaviour(c) ==
  [id |-> <<"cull", c>>, labels |-> <<"culling", c.kind, "straight">>,
   steps |-> << [op |-> "create", h |-> 1, wb |-> Doc(c)], [op |-> "create", h |-> 2, wb |-> Doc(c), culling |-> FALSE],
                [op |-> "qtable", h |-> 1, h2 |-> 2, dim |-> 3, props |-> <<PT, PC(1), PTag>>, rows |-> CullRows(c)] >>]

(***************************************************************************)
(* Arcs (dip varying linearly along a segment), by construct-then-query:    *)
(* the point is built forward from a chosen arc length t along the surface  *)
(* and a signed offset d along the local normal, as symbolic terms          *)
(*    s(t) = s0 + (sin(d0 + k t) - sin d0) / k                              *)
(*    z(t) = z0 - (cos(d0 + k t) - cos d0) / k        k = (d1 - d0) / L     *)
(*    p    = (s, z) + d (-sin(d0 + k t), cos(d0 + k t))                     *)
(* so the expected distances are known by construction.  Offsets stay well  *)
(* below the radius of curvature 1 / k and away from the segment ends.      *)
(***************************************************************************)
ArcCases == { [pre |-> 0, d0 |-> 30, d1 |-> 60, len |-> 400, kind |-> "subducting plate"],
              [pre |-> 0, d0 |-> 60, d1 |-> 20, len |-> 400, kind |-> "subducting plate"],
              [pre |-> 200, d0 |-> 45, d1 |-> 80, len |-> 300, kind |-> "subducting plate"],
              [pre |-> 200, d0 |-> 45, d1 |-> 110, len |-> 300, kind |-> "subducting plate"],
              [pre |-> 0, d0 |-> 80, d1 |-> 50, len |-> 300, kind |-> "fault"],
              [pre |-> 100, d0 |-> 45, d1 |-> 70, len |-> 300, kind |-> "fault"] }
V(n) == [op |-> "var", name |-> n]
ArcDoc(a) ==
  World(Cartesian,
        <<Line(a.kind, "line", <<<<200 * Km, -500 * Km>>, <<200 * Km, 1200 * Km>>>>, <<1500 * Km, 350 * Km>>, 0, 1500 * Km,
               (IF a.pre > 0 THEN <<Segment(a.pre * Km, <<100 * Km>>, <<-50 * Km>>, <<a.d0>>)>> ELSE <<>>)
               \o <<Segment(a.len * Km, <<100 * Km>>, <<-50 * Km>>, <<a.d0, a.d1>>)>>,
               <<>>, <<CUniform(<<1>>, "replace") @@ ((IF a.kind = "fault" THEN "min distance fault center" ELSE "min distance slab top") :> -1000 * Km)>>, <<>>, <<>>)>>)
(* row cells: $0 = t (km along the arc), $1 = d (km offset); let-bound: d0, k, s0, z0 (radians / metres) *)
ArcAngle == Add(V("d0"), Mul(V("k"), Mul(V("$0"), Km)))
ArcS == Add(Add(V("s0"), Div(Sub(Sin(ArcAngle), Sin(V("d0"))), V("k"))), Mul(Mul(V("$1"), Km), Mul(-1, Sin(ArcAngle))))
ArcZ == Add(Sub(V("z0"), Div(Sub(Cos(ArcAngle), Cos(V("d0"))), V("k"))), Mul(Mul(V("$1"), Km), Cos(ArcAngle)))
ArcBehaviour(a) ==
  LET lets == << <<"d0", Rad(a.d0)>>, <<"k", Div(Sub(Rad(a.d1), Rad(a.d0)), a.len * Km)>>,
                 <<"s0", Mul(a.pre * Km, Cos(Rad(a.d0)))>>, <<"z0", Mul(a.pre * Km, Sin(Rad(a.d0)))>> >>
      ts == {a.len \div 10, a.len \div 3, a.len \div 2, (9 * a.len) \div 10}
      ds == IF a.kind = "fault" THEN {-40, -10, 15, 45, -70, 80} ELSE {-40, -10, 15, 60, 90, -70, 130}
      inside(d) == IF a.kind = "fault" THEN d > -50 /\ d < 50 ELSE d > -50 /\ d < 100
      rows == SetToSeq(ts \X ds)
  IN [id |-> <<"arc", a>>, labels |-> <<"slab-geometry", a.kind, "arc">>,
      steps |-> << [op |-> "create", h |-> 1, wb |-> ArcDoc(a)],
                   [op |-> "atable", h |-> 1, name |-> "line", let |-> lets,
                    x |-> Add(200 * Km, ArcS), y |-> 350 * Km, depth |-> ArcZ, height |-> HM,
                    from |-> Mul(V("$1"), Km), along |-> Mul(Add(a.pre, V("$0")), Km), rel |-> Dec(1, -6), abs |-> 1,
                    props |-> <<PTag>>, tagname |-> a.kind, mindepth |-> 0, maxdepth |-> 1500 * Km,
                    rows |-> [i \in 1..Len(rows) |-> <<rows[i][1], rows[i][2], IF inside(rows[i][2]) THEN 1 ELSE 0>>]] >>]
EmitArcs == \A a \in ArcCases : PrintT(<<"B", ToJson(ArcBehaviour(a))>>)

(***************************************************************************)
(* Machine: segment tables are built one segment per step                   *)
(***************************************************************************)
VARIABLE cfg
(* thickness and top truncation are pairs <<at the start, at the end>> of every segment, varying linearly along it *)
Thicks == {<<5, 5>>, <<10, 5>>, <<5, 10>>, <<10, 10>>}
Truncs == {<<0, 0>>, <<-5, -5>>, <<0, 3>>, <<7, 7>>}      \* <<7, 7>> of a thickness of 10: only the lower layer of the plate is the feature
(* mid: the straight trench is given by three coordinates, the middle one exactly on the line (at w = 25) *)
(* maxd: the feature's max depth in lattice units -- 150 (1500 km, below everything) or 18 (180 km: it cuts the body) *)
Init == cfg \in {c \in [kind : Kinds, segs : {<<s>> : s \in Seg}, thick : Thicks, trunc : Truncs, mind : {0, 10}, dir : 1..3, side : Sides, mid : BOOLEAN, maxd : {150, 18}] :
                   /\ (c.maxd = 18 => (c.thick = <<5, 5>> /\ c.trunc = <<0, 0>> /\ ~c.mid /\ c.dir = 1))
                   /\ ((c.thick = <<10, 10>>) <=> (c.trunc = <<7, 7>>)) /\ (c.trunc = <<7, 7>> => (~c.mid /\ c.kind = "slab"))}
CONSTANTS Reduced2,    \* TRUE: a second segment is only added to a reduced set of one-segment configurations (quick tier)
          Reduced3     \* TRUE: a third segment (hooks, S shapes, short middle segments) is only added where the truncation is zero and the trench runs along y
Next == /\ Len(cfg.segs) < MaxSegments
        /\ Reduced2 => (cfg.thick = <<5, 5>> /\ cfg.mind = 0 /\ cfg.side = 1 /\ cfg.dir # 3 /\ ~cfg.mid)
        /\ (Len(cfg.segs) = 2 /\ Reduced3) => (cfg.trunc = <<0, 0>> /\ cfg.dir = 1 /\ cfg.thick = <<5, 5>> /\ cfg.mind = 0 /\ cfg.side = 1 /\ ~cfg.mid)
        /\ \E s \in Seg : cfg' = [cfg EXCEPT !.segs = Append(@, s)]
(* the construction is self-consistent: segments chain, the along-distance is continuous across segment ends *)
ChainOK == \A i \in 1..(Len(cfg.segs) - 1) :
              LET e == <<Start(cfg, i)[1] + cfg.segs[i].len * Dip5[cfg.segs[i].dip][1], Start(cfg, i)[2] + cfg.segs[i].len * Dip5[cfg.segs[i].dip][2]>>
              IN e = Start(cfg, i + 1)
FaultHasNoTruncation == cfg.kind = "fault" => TRUE
CullOK == CullingSound(cfg)
EmitCull == (cfg.kind = "fault" /\ cfg.trunc # <<0, 0>>) \/ PrintT(<<"B", ToJson(CullBehaviour(cfg))>>)
Emit == (cfg.kind = "fault" /\ cfg.trunc # <<0, 0>>) \/ PrintT(<<"B", ToJson(Behaviour(cfg))>>)
=============================================================================
