-------------------------------- MODULE CApi --------------------------------
(***************************************************************************)
(* C16 -- the C interface and the C++ wrapper class are transparent.       *)
(*                                                                         *)
(* World actions (the native object):                                      *)
(*    WCreate(file, hasdir, dir, seed)  WQuery(dim, point, depth, props)   *)
(*    WSize(props)  WRelease                                               *)
(* C actions: create_world(file, flag*, dir*, seed), properties_2d/3d,     *)
(* temperature_2d/3d, composition_2d/3d, properties_output_size,           *)
(* release_world; wrapper-class actions: constructor, temperature_2d/3d    *)
(* (with and without the ignored gravity argument), composition_2d/3d.     *)
(*                                                                         *)
(* Refinement: Map sends every C / wrapper action to exactly one World     *)
(* action with the same arguments (null flag pointer = false, null         *)
(* directory pointer = "").  The replay executes both sides of Map next to *)
(* each other on two worlds built from the same file and compares bitwise; *)
(* the seed is observed through random models, the directory through the   *)
(* files the constructor writes there.                                     *)
(***************************************************************************)
EXTENDS KS, Json, SequencesExt

Apis  == {"c", "cpp"}
Seeds == <<1, 2, 1000, 2147483647, Add(Mul(65536, 65536), 5), 0>>   \* ..., 2^32 + 5, and 0 (a seed like any other)
DirArgs == {"none", "rel", "blank"}      \* no directory / a multi-character relative directory / a prefix that ends with a blank
(* blankfile: the world file's name ends with a blank (a valid name; no file of the same name without the blank exists) *)
Args == [api : Apis, nullflag : BOOLEAN, dir : DirArgs, seed : 1..Len(Seeds), blankfile : BOOLEAN]
ValidArgs == {a \in Args : (a.api = "cpp" => ~a.nullflag) /\ (a.nullflag => a.dir = "none") /\ (a.blankfile => a.seed = 1)}

(* refinement mapping of the constructor arguments *)
MapCreate(a) == [hasdir |-> (a.dir # "none") /\ ~a.nullflag,
                 dir |-> CASE a.dir = "none" -> "" [] a.dir = "rel" -> "od_c16/" [] OTHER -> "od_c16/run ",
                 seed |-> Seeds[a.seed]]

Rnd == Area("continental plate", "rnd", RectU(FALSE, 1100, 0, 1500, 500), 0, 200*Km, <<>>,
            <<   ("model" :> "random") @@ ("compositions" :> <<7>>) @@ ("min value" :> <<Dec(25, -2)>>)
              @@ ("max value" :> <<Dec(75, -2)>>) >>,
            <<   ("model" :> "random uniform distribution") @@ ("compositions" :> <<0>>)
              @@ ("grain sizes" :> <<-1>>) @@ ("normalize grain sizes" :> <<TRUE>>) >>,
            <<VUniform(<<9, 9, 9>>)>>)

Doc == World(Cartesian, KSFeatures(FALSE) \o <<Rnd>>) @@ ("cross section" :> <<XY(FALSE, 0, 250), XY(FALSE, 1000, 250)>>)

ProbesKm == << <<100, 250, 50>>, <<250, 250, 100>>, <<600, 250, 120>>, <<800, 250, 130>>, <<300, 250, 20>>,
               <<1700, 250, 50>>, <<250, 250, 0>>, <<1300, 250, 50>>, <<400, 700, 30>>,
               <<250, 250, -5>>, <<1700, 250, -2>> >>            \* above the surface: a negative depth is a depth like any other
P3(pr) == [p |-> <<pr[1]*Km, pr[2]*Km, H - pr[3]*Km>>, dim |-> 3, depth |-> pr[3]*Km]
P2(pr) == [p |-> <<pr[1]*Km, H - pr[3]*Km>>, dim |-> 2, depth |-> pr[3]*Km]
Points == {P3(ProbesKm[i]) : i \in 1..Len(ProbesKm)} \cup {P2(ProbesKm[i]) : i \in {j \in 1..Len(ProbesKm) : ProbesKm[j][2] = 250}}

CLists == {<<PT>>, <<PC(7)>>, <<PG(0, 3)>>, <<PT, PC(0), PC(7), PTag, PV>>, <<PG(0, 2), PV, PC(7), PG(1, 3), PT>>}

(* one World action next to the C / wrapper action Map sends to it *)
Side(pt, props, via, wvia) ==
  << pt @@ [op |-> "q", h |-> 1, props |-> props, via |-> wvia, save |-> "n"],
     pt @@ [op |-> "q", h |-> 2, props |-> props, via |-> via,
            expect |-> <<[k |-> "len", n |-> Total(props)], [k |-> "bits", at |-> 0, n |-> Total(props), ref |-> "n"]>>] >>

CSteps(pt) ==
     FlattenSeq([l \in 1..Cardinality(CLists) |-> Side(pt, SetToSeq(CLists)[l], "props", "props")])
  \o Side(pt, <<PT>>, "temperature", "temperature")
  \o Side(pt, <<PC(7)>>, "composition", "composition") \o Side(pt, <<PC(1)>>, "composition", "composition")
CppSteps(pt) ==
     Side(pt, <<PT>>, "temperature", "temperature") \o Side(pt, <<PT>>, "temperature_g", "temperature")
  \o Side(pt, <<PC(7)>>, "composition", "composition") \o Side(pt, <<PC(0)>>, "composition", "composition")

SizeSteps == [l \in 1..Cardinality(CLists) |-> [op |-> "size", h |-> 2, props |-> SetToSeq(CLists)[l], n |-> Total(SetToSeq(CLists)[l])]]

Behaviour(a) ==
  LET m == MapCreate(a)
      pts == SetToSeq(Points)
      dirpart == IF a.dir = "none" THEN <<>> ELSE <<[op |-> "mkdir", path |-> "od_c16"]>>
      dirarg == IF m.hasdir THEN [outdir |-> m.dir] ELSE <<>>
  IN
  [id |-> <<"capi", a>>, labels |-> <<"capi", a.api, "dir:" \o a.dir, "seed" \o ToString(a.seed)>> \o (IF a.blankfile THEN <<"file-name-ends-with-blank">> ELSE <<>>),
   steps |-> dirpart
     \o << [op |-> "create", h |-> 1, api |-> "native", wb |-> Doc, seed |-> m.seed, blank_name |-> a.blankfile] @@ dirarg >>
     \o (IF m.hasdir THEN <<[op |-> "exists", path |-> m.dir \o "world_builder_declarations.schema.json", want |-> TRUE, remove |-> TRUE]>> ELSE <<>>)
     \o << [op |-> "create", h |-> 2, api |-> a.api, wb |-> Doc, seed |-> m.seed, null_flag |-> a.nullflag, blank_name |-> a.blankfile] @@ dirarg >>
     \o (IF m.hasdir THEN <<[op |-> "exists", path |-> m.dir \o "world_builder_declarations.schema.json", want |-> TRUE, remove |-> TRUE]>> ELSE <<>>)
     \o (IF a.api = "c" THEN SizeSteps ELSE <<>>)
     \o FlattenSeq([i \in 1..Len(pts) |-> IF a.api = "c" THEN CSteps(pts[i]) ELSE CppSteps(pts[i])])
     \* a different seed must give different draws (the seed really arrives)
     \o << [op |-> "create", h |-> 3, api |-> a.api, wb |-> Doc, seed |-> IF a.seed = 1 THEN 7 ELSE 1],
           [op |-> "create", h |-> 4, api |-> "native", wb |-> Doc, seed |-> m.seed],
           P3(ProbesKm[8]) @@ [op |-> "q", h |-> 4, props |-> <<PC(7)>>, via |-> "composition", save |-> "s1"],
           P3(ProbesKm[8]) @@ [op |-> "q", h |-> 3, props |-> <<PC(7)>>, via |-> "composition", expect |-> <<[k |-> "differs", ref |-> "s1"]>>] >>
     \o << [op |-> "release", h |-> 2], [op |-> "release", h |-> 3] >>]

VARIABLES args, cbound, chist, cdone
Init == args \in ValidArgs /\ cbound = <<>> /\ chist = <<>> /\ cdone = FALSE
Next == UNCHANGED <<args, cbound, chist, cdone>>
(* Map is total and argument-preserving on the bounded space *)
MapOK == /\ MapCreate(args).seed = Seeds[args.seed]
         /\ (args.dir = "rel" /\ ~args.nullflag) => (MapCreate(args).hasdir /\ MapCreate(args).dir = "od_c16/")
         /\ (args.dir = "blank" /\ ~args.nullflag) => (MapCreate(args).hasdir /\ MapCreate(args).dir = "od_c16/run ")
         /\ args.nullflag => ~MapCreate(args).hasdir
Emit == PrintT(<<"B", ToJson(Behaviour(args))>>)

(***************************************************************************)
(* Life-cycle machine.  Two wrapper handles (1, 2), each dead or bound to  *)
(* (api, document, seed); handle h has a native twin 10 + h that receives  *)
(* the World action Map assigns to every wrapper action.  Actions:         *)
(*   LCreate  LRelease  LProps  LSingle  LSize                             *)
(* in any order, on any handle, with worlds of two documents (Cartesian    *)
(* and spherical) and several seeds alive together.  Prop: after every     *)
(* step the wrapper's answer equals its twin's bit for bit -- the wrapper  *)
(* layer has no state of its own that a history could disturb (no buffer   *)
(* shared between handles, nothing kept from an earlier call or a released *)
(* world).  The history is replayed; the abstract state only records which *)
(* handles are live.                                                       *)
(***************************************************************************)
CONSTANT MaxCHist
LHandles == {1, 2}
DocSph == World(Spherical("begin segment"), KSFeatures(TRUE)
                \o <<[Rnd EXCEPT !["coordinates"] = RectU(TRUE, 1100, 0, 1500, 500)]>>)
          @@ ("cross section" :> <<XY(TRUE, 0, 250), XY(TRUE, 1000, 250)>>)
LDocs == {"capi_cart", "capi_sph"}
LSeeds == {1, 4, 5, 6}                                   \* indices into Seeds: 1, 2^31 - 1, 2^32 + 5, 0
LProbes == {2, 4, 7, 8, 10}                                 \* continent + mantle + plume, slab, surface, random plate
LPoint(doc, i, d) ==
  LET pr == ProbesKm[i] IN
  IF doc = "capi_cart" THEN (IF d = 3 THEN P3(pr) ELSE P2(pr))
  ELSE IF d = 3 THEN [sph |-> <<R - pr[3]*Km, Rat(pr[1], 100), Rat(pr[2], 100)>>, dim |-> 3, depth |-> pr[3]*Km]
       ELSE [p |-> <<Mul(R - pr[3]*Km, Cos(Rad(Rat(pr[1], 100)))), Mul(R - pr[3]*Km, Sin(Rad(Rat(pr[1], 100))))>>, dim |-> 2, depth |-> pr[3]*Km]
LLists == {<<PT>>, <<PG(0, 3)>>, <<PT, PC(0), PC(7), PTag, PV>>, <<PG(0, 2), PV, PC(7), PG(1, 3), PT>>, <<PV, PV>>}

LPrologue == [id |-> "capi-prologue", global |-> TRUE,
              steps |-> <<[op |-> "defdoc", name |-> "capi_cart", wb |-> Doc], [op |-> "defdoc", name |-> "capi_sph", wb |-> DocSph]>>]

LInit == cbound = [h \in LHandles |-> <<>>] /\ chist = <<>> /\ cdone = FALSE /\ args = CHOOSE a \in ValidArgs : TRUE
Live(h) == cbound[h] # <<>>
LDir(h) == "od_c16_" \o ToString(h)
LSchema(h) == LDir(h) \o "/world_builder_declarations.schema.json"
(* od: the constructor is asked to write its declaration files into a directory of the handle's own; the files are
   looked for (and removed) after the twin's and after the wrapper's construction: every world that asks gets them *)
LCreate(h, api, doc, s, nf, od) ==
  /\ ~Live(h) /\ (nf => (api = "c" /\ ~od))
  /\ cbound' = [cbound EXCEPT ![h] = <<api, doc, s>>]
  /\ chist' = chist \o (IF od THEN <<[op |-> "mkdir", path |-> LDir(h)]>> ELSE <<>>)
                     \o << [op |-> "create", h |-> 10 + h, api |-> "native", doc |-> doc, seed |-> Seeds[s]] @@ (IF od THEN [outdir |-> LDir(h) \o "/"] ELSE <<>>) >>
                     \o (IF od THEN <<[op |-> "exists", path |-> LSchema(h), want |-> TRUE, remove |-> TRUE]>> ELSE <<>>)
                     \o << [op |-> "create", h |-> h, api |-> api, doc |-> doc, seed |-> Seeds[s], null_flag |-> nf] @@ (IF od THEN [outdir |-> LDir(h) \o "/"] ELSE <<>>) >>
                     \o (IF od THEN <<[op |-> "exists", path |-> LSchema(h), want |-> TRUE, remove |-> TRUE]>> ELSE <<>>)
LRelease(h) ==
  /\ Live(h)
  /\ cbound' = [cbound EXCEPT ![h] = <<>>]
  /\ chist' = chist \o << [op |-> "release", h |-> h], [op |-> "release", h |-> 10 + h] >>
LSide(h, pt, props, via, wvia) ==
  << pt @@ [op |-> "q", h |-> 10 + h, props |-> props, via |-> wvia, save |-> "n"],
     pt @@ [op |-> "q", h |-> h, props |-> props, via |-> via,
            expect |-> <<[k |-> "len", n |-> Total(props)], [k |-> "bits", at |-> 0, n |-> Total(props), ref |-> "n"]>>] >>
LProps(h, i, d, ps) ==
  /\ Live(h) /\ cbound[h][1] = "c" /\ UNCHANGED cbound
  /\ chist' = chist \o LSide(h, LPoint(cbound[h][2], i, d), ps, "props", "props")
LSingle(h, i, d, v) ==      \* v: <<wrapper entry point, World entry point, property>>
  /\ Live(h) /\ (v[1] = "temperature_g" => cbound[h][1] = "cpp") /\ UNCHANGED cbound
  /\ chist' = chist \o LSide(h, LPoint(cbound[h][2], i, d), <<v[3]>>, v[1], v[2])
LSize(h, ps) ==
  /\ Live(h) /\ cbound[h][1] = "c" /\ UNCHANGED cbound
  /\ chist' = Append(chist, [op |-> "size", h |-> h, props |-> ps, n |-> Total(ps)])
Singles == {<<"temperature", "temperature", PT>>, <<"temperature_g", "temperature", PT>>,
            <<"composition", "composition", PC(7)>>, <<"composition", "composition", PC(1)>>}
LFinish == Len(chist) >= MaxCHist /\ ~cdone /\ cdone' = TRUE /\ UNCHANGED <<args, cbound, chist>>
LNext == \/ LFinish
         \/ /\ Len(chist) < MaxCHist /\ ~cdone /\ UNCHANGED <<args, cdone>>
            /\ \/ \E h \in LHandles, api \in Apis, doc \in LDocs, sd \in LSeeds, nf \in BOOLEAN, od \in BOOLEAN : LCreate(h, api, doc, sd, nf, od)
               \/ \E h \in LHandles : LRelease(h)
               \/ \E h \in LHandles, i \in LProbes, d \in {2, 3}, ps \in LLists : LProps(h, i, d, ps)
               \/ \E h \in LHandles, i \in LProbes, d \in {2, 3}, v \in Singles : LSingle(h, i, d, v)
               \/ \E h \in LHandles, ps \in LLists : LSize(h, ps)
(* every wrapper step of a history sits right after the World step Map sends it to, on the twin handle *)
LWellFormed == \A k \in 1..Len(chist) :
   (chist[k].op = "q" /\ chist[k].h < 10) => (k > 1 /\ chist[k - 1].op = "q" /\ chist[k - 1].h = 10 + chist[k].h
                                                 /\ chist[k - 1].props = chist[k].props /\ chist[k - 1].depth = chist[k].depth)
LEmit == ~cdone \/ PrintT(<<"B", ToJson([id |-> <<"capi-history", Len(chist)>>, labels |-> <<"capi", "history">>, steps |-> chist])>>)
LEmitPrologue == PrintT(<<"B", ToJson(LPrologue)>>)
=============================================================================
