---- MODULE MC_Kernels_gc ----
EXTENDS Kernels
ASSUME GcMechRefinesProp
====
