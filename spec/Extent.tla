------------------------------- MODULE Extent -------------------------------
(***************************************************************************)
(* C04 (area features) / C19 (polygon kernel) -- a point is in an area     *)
(* feature iff its surface position lies in the closed polygon and its     *)
(* depth in the closed depth interval.                                     *)
(*                                                                         *)
(* Polygons are built vertex by vertex on an N x N lattice; vertices have  *)
(* even coordinates 2*(0..N-1), probes all integer coordinates of          *)
(* -1..2N-1, so probes hit vertices, edge mid-points, interior and         *)
(* exterior points.  Everything is integer arithmetic.                     *)
(*                                                                         *)
(* Prop : InClosed(poly, p)  ==  p on some closed edge, or an odd number   *)
(*        of half-open crossings of the ray to the right of p.             *)
(* Mech : the winding-number code of utilities.cc:62-162, with its         *)
(*        `approx` vertex test (on lattice integers approx(a,b) is         *)
(*        a = b /\ a # 0), its upward/downward crossing cases and its      *)
(*        on-segment test, transcribed branch by branch.                   *)
(* TLC checks Mech = Prop for every simple polygon it builds and every     *)
(* probe; each polygon is emitted for replay (world level and kernel).     *)
(***************************************************************************)
EXTENDS Wb, Json, SequencesExt

CONSTANTS N,          \* lattice size
          MaxV,       \* most vertices
          Mode        \* "world" (C04 replay through area features) or "kernel" (C19 direct calls)

Lattice == {<<2 * i, 2 * j>> : i, j \in 0..(N - 1)}
ProbeSet == {<<i, j>> : i, j \in (-1)..(2 * N - 1)}

Cross(o, a, b) == (a[1] - o[1]) * (b[2] - o[2]) - (a[2] - o[2]) * (b[1] - o[1])
Sgn(x) == IF x > 0 THEN 1 ELSE IF x < 0 THEN -1 ELSE 0
Min2(a, b) == IF a < b THEN a ELSE b
Max2(a, b) == IF a > b THEN a ELSE b
OnSeg(a, b, p) == /\ Cross(a, b, p) = 0
                  /\ Min2(a[1], b[1]) <= p[1] /\ p[1] <= Max2(a[1], b[1])
                  /\ Min2(a[2], b[2]) <= p[2] /\ p[2] <= Max2(a[2], b[2])
(* closed segments ab and cd have a common point *)
Intersect(a, b, c, d) ==
  LET d1 == Sgn(Cross(c, d, a))  d2 == Sgn(Cross(c, d, b))
      d3 == Sgn(Cross(a, b, c))  d4 == Sgn(Cross(a, b, d))
  IN \/ (d1 * d2 < 0 /\ d3 * d4 < 0)
     \/ OnSeg(c, d, a) \/ OnSeg(c, d, b) \/ OnSeg(a, b, c) \/ OnSeg(a, b, d)

(***************************************************************************)
(* Building simple polygons                                                *)
(***************************************************************************)
Less(a, b) == a[1] < b[1] \/ (a[1] = b[1] /\ a[2] < b[2])

(* appending v keeps the open path simple: v is new, the new edge meets the previous edge only
   in their shared vertex and no earlier edge at all *)
CanAppend(path, v) ==
  LET n == Len(path) IN
  /\ \A i \in 1..n : path[i] # v
  /\ Less(path[1], v)                                  \* canonical start: the smallest vertex comes first
  /\ n >= 2 => ~OnSeg(path[n], v, path[n-1]) /\ ~OnSeg(path[n-1], path[n], v)
  /\ \A i \in 1..(n - 2) : ~Intersect(path[i], path[i+1], path[n], v)

(* the closing edge from the last vertex back to the first makes a simple polygon *)
Closes(path) ==
  LET n == Len(path) IN
  /\ n >= 3
  /\ ~OnSeg(path[n], path[1], path[n-1]) /\ ~OnSeg(path[n-1], path[n], path[1])
  /\ ~OnSeg(path[n], path[1], path[2]) /\ ~OnSeg(path[1], path[2], path[n])
  /\ \A i \in 2..(n - 2) : ~Intersect(path[i], path[i+1], path[n], path[1])

(***************************************************************************)
(* Prop                                                                    *)
(***************************************************************************)
Edge(poly, i) == <<poly[i], poly[(i % Len(poly)) + 1]>>
OnBoundary(poly, p) == \E i \in 1..Len(poly) : OnSeg(Edge(poly, i)[1], Edge(poly, i)[2], p)
(* edge a->b crosses the horizontal ray from p to the right (half-open in y) *)
RayCross(a, b, p) ==
  LET lo == IF a[2] < b[2] THEN a ELSE b
      hi == IF a[2] < b[2] THEN b ELSE a
  IN a[2] # b[2] /\ lo[2] <= p[2] /\ p[2] < hi[2] /\ Cross(lo, hi, p) < 0
Crossings(poly, p) == Cardinality({i \in 1..Len(poly) : RayCross(Edge(poly, i)[1], Edge(poly, i)[2], p)})
InClosed(poly, p) == OnBoundary(poly, p) \/ Crossings(poly, p) % 2 = 1

(***************************************************************************)
(* Mech: utilities.cc polygon_contains_point_implementation                *)
(***************************************************************************)
Approx(a, b) == a = b /\ a # 0          \* |a-b| < |min(a,b)| * eps * 1e4 on integers
(* one loop iteration: edge from V[j] to V[i]; result <<returned, wn'>> *)
MechEdge(vj, vi, p, wn) ==
  LET isleft == (vi[1] - vj[1]) * (p[2] - vj[2]) - (p[1] - vj[1]) * (vi[2] - vj[2])
      dot == (p[1] - vj[1]) * (vi[1] - vj[1]) + (p[2] - vj[2]) * (vi[2] - vj[2])
      sq == (vi[1] - vj[1]) * (vi[1] - vj[1]) + (vi[2] - vj[2]) * (vi[2] - vj[2])
      onseg == dot >= 0 /\ dot <= sq
  IN IF vj[2] <= p[2]
     THEN IF Approx(vi[1], p[1]) /\ Approx(vi[2], p[2]) THEN <<TRUE, wn>>
          ELSE IF vi[2] >= p[2]
               THEN IF isleft > 0 /\ vi[2] > p[2] THEN <<FALSE, wn + 1>>
                    ELSE IF isleft = 0 /\ onseg THEN <<TRUE, wn>> ELSE <<FALSE, wn>>
               ELSE <<FALSE, wn>>
     ELSE IF vi[2] <= p[2]
          THEN IF isleft < 0 THEN <<FALSE, wn - 1>>
               ELSE IF isleft = 0 /\ onseg THEN <<TRUE, wn>> ELSE <<FALSE, wn>>
          ELSE <<FALSE, wn>>
RECURSIVE MechLoop(_, _, _, _, _)
MechLoop(poly, p, i, j, wn) ==
  IF i > Len(poly) THEN wn # 0
  ELSE LET r == MechEdge(poly[j], poly[i], p, wn) IN
       IF r[1] THEN TRUE ELSE MechLoop(poly, p, i + 1, i, r[2])
MechContains(poly, p) == MechLoop(poly, p, 1, Len(poly), 0)

(***************************************************************************)
(* Machine                                                                 *)
(***************************************************************************)
VARIABLE path
Init == path \in {<<v>> : v \in Lattice}
Next == /\ Len(path) < MaxV
        /\ \E v \in Lattice : CanAppend(path, v) /\ path' = Append(path, v)

IsPolygon == Closes(path)
MechEqualsProp == IsPolygon => \A p \in ProbeSet : MechContains(path, p) = InClosed(path, p)

(***************************************************************************)
(* Emission.  World level: lattice unit = 5 km (vertices on even multiples) *)
(* in Cartesian metres, three area features of the three types stacked in  *)
(* depth (continental 0-30 km, oceanic 40-70 km, mantle layer 80-110 km),   *)
(* each with a uniform composition; probes at the depth-interval ends and   *)
(* just outside them.                                                       *)
(***************************************************************************)
UnitM == 5 * Km
HM == 500 * Km
PolyM(poly) == [i \in 1..Len(poly) |-> <<poly[i][1] * UnitM, poly[i][2] * UnitM>>]
Types == <<"continental plate", "oceanic plate", "mantle layer">>
TopOf(t) == (t - 1) * 40 * Km
BotOf(t) == TopOf(t) + 30 * Km
DocW(poly) == World(Cartesian,
                [t \in 1..3 |-> Area(Types[t], "a" \o ToString(t), PolyM(poly), TopOf(t), BotOf(t),
                                     <<>>, <<CUniform(<<t>>, "replace")>>, <<>>, <<>>)])
(* depth probes for type t: <<depth, inside the closed interval?>> *)
DepthProbes(t) == << <<TopOf(t), TRUE>>, <<BotOf(t), TRUE>>, <<TopOf(t) + 15 * Km, TRUE>>,
                     <<TopOf(t) - 1, FALSE>>, <<BotOf(t) + 1, FALSE>> >>

(* rows of a query table: <<x, y, z, depth, expected composition t, expected tag index>> *)
Row(poly, p, t, k) ==
  LET dp == DepthProbes(t)[k]
      inside == InClosed(poly, p) /\ dp[2] IN
  <<p[1] * UnitM, p[2] * UnitM, HM - dp[1], dp[1], IF inside THEN 1 ELSE 0, IF inside THEN t ELSE 0>>

(* every probe at the middle depth; the other depth probes at three surface points *)
SomeInside(poly)  == {p \in ProbeSet : InClosed(poly, p) /\ ~OnBoundary(poly, p)}
SomeOutside(poly) == {p \in ProbeSet : ~InClosed(poly, p)}
Pick(S) == IF S = {} THEN {} ELSE {CHOOSE p \in S : TRUE}
DepthPoints(poly) == Pick(SomeInside(poly)) \cup Pick(SomeOutside(poly)) \cup {poly[1]}

Table(poly, t) ==
  LET ps == SetToSeq(ProbeSet)
      ds == SetToSeq(DepthPoints(poly) \X {1, 2, 4, 5})
  IN [op |-> "qtable", h |-> 1, dim |-> 3, props |-> <<PC(t), PTag>>,
      checks |-> <<[k |-> "eq", at |-> 0, col |-> 4], [k |-> "tagname", at |-> 1, col |-> 5, names |-> <<FALSE>> \o Types]>>,
      rows |-> [i \in 1..Len(ps) |-> Row(poly, ps[i], t, 3)] \o [i \in 1..Len(ds) |-> Row(poly, ds[i][1], t, ds[i][2])]]

WorldBehaviour(poly) ==
  [id |-> <<"polygon", poly>>, labels |-> <<"area-extent", "v" \o ToString(Len(poly))>>,
   steps |-> <<[op |-> "create", h |-> 1, wb |-> DocW(poly)]>> \o [t \in 1..3 |-> Table(poly, t)]]

KernelBehaviour(poly) ==
  LET ps == SetToSeq(ProbeSet) IN
  [id |-> <<"polygon", poly>>, labels |-> <<"polygon-kernel", "v" \o ToString(Len(poly))>>,
   steps |-> <<[op |-> "polygon", poly |-> PolyM(poly),
                pts |-> [i \in 1..Len(ps) |-> <<ps[i][1] * UnitM, ps[i][2] * UnitM, IF InClosed(path, ps[i]) THEN 1 ELSE 0>>]]>>]

(***************************************************************************)
(* Spherical rendering: lattice unit = 5 degrees, footprints placed at three *)
(* longitudes: ordinary, straddling the +-180 meridian (coordinates up to   *)
(* 215 degrees) and given beyond -180 (down to -215).  Boundary points are   *)
(* not asserted here (degrees -> radians is inexact); interior and exterior  *)
(* lattice points are at least 2.5 degrees from any edge line ... at least   *)
(* 1/20 of a lattice unit, far above rounding.  Query points are also given  *)
(* with longitude +- 360.                                                    *)
(***************************************************************************)
RS == 6371000
Lon0s == <<-20, 175, -215>>
SphPoly(poly, lon0) == [i \in 1..Len(poly) |-> <<lon0 + 5 * poly[i][1], 10 + 5 * poly[i][2]>>]
SphDoc(poly, lon0) == World(Spherical("begin segment"),
                        [t \in 1..3 |-> Area(Types[t], "a" \o ToString(t), SphPoly(poly, lon0), TopOf(t), BotOf(t),
                                             <<>>, <<CUniform(<<t>>, "replace")>>, <<>>, <<>>)])
SphRows(poly, lon0, t, alias) ==
  LET ps == SetToSeq({p \in ProbeSet : ~OnBoundary(poly, p)}) IN
  [k \in 1..Len(ps) |-> LET inside == InClosed(poly, ps[k]) IN
     <<RS - (TopOf(t) + 15 * Km), lon0 + alias + 5 * ps[k][1], 10 + 5 * ps[k][2], TopOf(t) + 15 * Km, IF inside THEN 1 ELSE 0, IF inside THEN t ELSE 0>>]
SphBehaviour(poly) ==
  [id |-> <<"polygon-sph", poly>>, labels |-> <<"area-extent", "spherical", "v" \o ToString(Len(poly))>>,
   steps |-> FlattenSeq([l \in 1..3 |->
               <<[op |-> "create", h |-> l, wb |-> SphDoc(poly, Lon0s[l])]>> \o
               [t \in 1..3 |-> [op |-> "qtable", h |-> l, dim |-> 3, sph |-> TRUE, props |-> <<PC(t), PTag>>,
                                 checks |-> <<[k |-> "eq", at |-> 0, col |-> 4], [k |-> "tagname", at |-> 1, col |-> 5, names |-> <<FALSE>> \o Types]>>,
                                 rows |-> SphRows(poly, Lon0s[l], t, <<0, 360, -360>>[t])]]])]

Emit == ~IsPolygon \/ PrintT(<<"B", ToJson(CASE Mode = "world" -> WorldBehaviour(path) [] Mode = "world-sph" -> SphBehaviour(path) [] OTHER -> KernelBehaviour(path))>>)
=============================================================================
