---- MODULE C01_TTrace_1790844163 ----
EXTENDS Sequences, TLCExt, C01, Toolbox, Naturals, TLC

_expression ==
    LET C01_TEExpression == INSTANCE C01_TEExpression
    IN C01_TEExpression!expression
----

_trace ==
    LET C01_TETrace == INSTANCE C01_TETrace
    IN C01_TETrace!trace
----

_inv ==
    ~(
        TLCGet("level") = Len(_TETrace)
        /\
        hist = (<<>>)
        /\
        bound = (<<>>)
        /\
        props = (<<<<3, 0, 2>>, <<5, 0, 0>>>>)
    )
----

_init ==
    /\ bound = _TETrace[1].bound
    /\ props = _TETrace[1].props
    /\ hist = _TETrace[1].hist
----

_next ==
    /\ \E i,j \in DOMAIN _TETrace:
        /\ \/ /\ j = i + 1
              /\ i = TLCGet("level")
        /\ bound  = _TETrace[i].bound
        /\ bound' = _TETrace[j].bound
        /\ props  = _TETrace[i].props
        /\ props' = _TETrace[j].props
        /\ hist  = _TETrace[i].hist
        /\ hist' = _TETrace[j].hist

\* Uncomment the ASSUME below to write the states of the error trace
\* to the given file in Json format. Note that you can pass any tuple
\* to `JsonSerialize`. For example, a sub-sequence of _TETrace.
    \* ASSUME
    \*     LET J == INSTANCE Json
    \*         IN J!JsonSerialize("C01_TTrace_1790844163.json", _TETrace)

=============================================================================

 Note that you can extract this module `C01_TEExpression`
  to a dedicated file to reuse `expression` (the module in the 
  dedicated `C01_TEExpression.tla` file takes precedence 
  over the module `C01_TEExpression` below).

---- MODULE C01_TEExpression ----
EXTENDS Sequences, TLCExt, C01, Toolbox, Naturals, TLC

expression == 
    [
        \* To hide variables of the `C01` spec from the error trace,
        \* remove the variables below.  The trace will be written in the order
        \* of the fields of this record.
        bound |-> bound
        ,props |-> props
        ,hist |-> hist
        
        \* Put additional constant-, state-, and action-level expressions here:
        \* ,_stateNumber |-> _TEPosition
        \* ,_boundUnchanged |-> bound = bound'
        
        \* Format the `bound` variable as Json value.
        \* ,_boundJson |->
        \*     LET J == INSTANCE Json
        \*     IN J!ToJson(bound)
        
        \* Lastly, you may build expressions over arbitrary sets of states by
        \* leveraging the _TETrace operator.  For example, this is how to
        \* count the number of times a spec variable changed up to the current
        \* state in the trace.
        \* ,_boundModCount |->
        \*     LET F[s \in DOMAIN _TETrace] ==
        \*         IF s = 1 THEN 0
        \*         ELSE IF _TETrace[s].bound # _TETrace[s-1].bound
        \*             THEN 1 + F[s-1] ELSE F[s-1]
        \*     IN F[_TEPosition - 1]
    ]

=============================================================================



Parsing and semantic processing can take forever if the trace below is long.
 In this case, it is advised to uncomment the module below to deserialize the
 trace from a generated binary file.

\*
\*---- MODULE C01_TETrace ----
\*EXTENDS IOUtils, C01, TLC
\*
\*trace == IODeserialize("C01_TTrace_1790844163.bin", TRUE)
\*
\*=============================================================================
\*

---- MODULE C01_TETrace ----
EXTENDS C01, TLC

trace == 
    <<
    ([hist |-> <<>>,bound |-> <<>>,props |-> <<>>]),
    ([hist |-> <<>>,bound |-> <<>>,props |-> <<<<3, 0, 2>>>>]),
    ([hist |-> <<>>,bound |-> <<>>,props |-> <<<<3, 0, 2>>, <<5, 0, 0>>>>])
    >>
----


=============================================================================

---- CONFIG C01_TTrace_1790844163 ----
CONSTANTS
    MaxLen = 3
    MaxHist = 0
    PreFixF1 = TRUE

INVARIANT
    _inv

CHECK_DEADLOCK
    \* CHECK_DEADLOCK off because of PROPERTY or INVARIANT above.
    FALSE

INIT
    _init

NEXT
    _next

CONSTANT
    _TETrace <- _trace

ALIAS
    _expression
=============================================================================
\* Generated on Thu Oct 01 08:42:45 UTC 2026