---- MODULE MC_Paint_theorems ----
EXTENDS Paint
ASSUME ConstTheorems
====
