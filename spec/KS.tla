------------------------------- MODULE KS -------------------------------
(***************************************************************************)
(* The "kitchen sink" configuration: one world with every feature type,    *)
(* overlapping, each with temperature, composition, grains and velocity    *)
(* models, so that every block of a reply is distinguishable.  Rendered    *)
(* Cartesian (km) or spherical (100 km <-> 1 degree).  Used by C01, C09,   *)
(* C14, C16 as "some valid world with everything in it".                   *)
(***************************************************************************)
EXTENDS Wb

H == 1000 * Km                        \* Cartesian model height: z = H - depth
R == 6371000                          \* default planet radius

U(sph, km) == IF sph THEN Rat(km, 100) ELSE km * Km   \* horizontal unit: km or degrees (100 km per degree)
XY(sph, x, y) == <<U(sph, x), U(sph, y)>>
RectU(sph, x0, y0, x1, y1) == <<XY(sph,x0,y0), XY(sph,x1,y0), XY(sph,x1,y1), XY(sph,x0,y1)>>

(* a composition that depends on the temperature of the finished world at the point (tian2019_water_content.cc) *)
TianWater == ("model" :> "tian water content") @@ ("compositions" :> <<1>>) @@ ("lithology" :> "peridotite")
             @@ ("initial water content" :> 2) @@ ("cutoff pressure" :> 10)

(* "late" is listed after the slab and heats part of it: the slab's bound-water model reads the temperature of the
   finished world (600 + 400 K, where the parameterisation is sensitive), so one property depends on another one *)
Core(sph) ==
  << Area("continental plate", "cont", RectU(sph, 0, 0, 500, 500), 0, 200*Km,
          <<TUniform(150, "replace")>>, <<CUniform(<<0>>, "replace")>>,
          <<GUniform(<<0, 1>>, <<Mat(1), Mat(10)>>, <<Dec(3,-1), -1>>)>>, <<VUniform(<<1, 2, 3>>)>>),
     Area("oceanic plate", "ocean", RectU(sph, 500, 0, 1000, 500), 0, 150*Km,
          <<TUniform(250, "add")>>, <<CUniformF(<<1, 2>>, <<Dec(25,-2), Dec(75,-2)>>, "replace")>>,
          <<GUniform(<<1>>, <<Mat(20)>>, <<Dec(5,-1)>>)>>, <<VUniform(<<4, 5, 6>>)>>),
     Area("mantle layer", "mantle", RectU(sph, 0, 0, 1000, 500), 100*Km, 400*Km,
          <<TUniform(30, "subtract")>>, <<CUniform(<<0>>, "add")>>, <<>>, <<VUniform(<<7, 8, 9>>)>>),
     Plume("plume", <<XY(sph,250,250), XY(sph,250,250)>>, <<50*Km, 300*Km>>,
           <<U(sph,100), U(sph,80)>>, <<0, Dec(5,-1)>>, <<0, 30>>, 10*Km, 350*Km,
           <<TUniform(1800, "replace")>>, <<CUniform(<<3>>, "replace")>>,
           <<GUniform(<<0>>, <<Mat(30)>>, <<1>>)>>, <<VUniform(<<0, 0, 9>>)>>),
     Line("subducting plate", "slab", <<XY(sph,700,-100), XY(sph,700,600)>>, XY(sph,1000,0), 0, 600*Km,
          <<Segment(300*Km, <<100*Km>>, <<0>>, <<45>>)>>,
          <<TUniform(600, "replace")>>, <<CUniform(<<2>>, "replace"), TianWater>>,
          <<GUniform(<<0, 1>>, <<Mat(40), Mat(50)>>, <<Dec(1,-1), Dec(2,-1)>>)>>, <<VUniform(<<1, 1, 1>>)>>),
     Line("fault", "fault", <<XY(sph,300,-100), XY(sph,300,600)>>, XY(sph,0,0), 0, 600*Km,
          <<Segment(200*Km, <<50*Km>>, <<0>>, <<90>>)>>,
          <<TUniform(700, "replace")>>, <<CUniform(<<4>>, "replace")>>,
          <<>>, <<VUniform(<<2, 2, 2>>)>>) >>
Late(sph) == Area("mantle layer", "late", RectU(sph, 750, 200, 900, 450), 100*Km, 200*Km,
                  <<TUniform(400, "add")>>, <<>>, <<>>, <<>>)
(* veils: features without any model, one of each type, listed last, each over one probe of C01.tla.  A feature without models of a
   kind leaves that kind as it was - whatever else is in the request *)
Veils(sph) ==
  << Area("continental plate", "veil-c", RectU(sph, 50, 50, 150, 150), 0, 100*Km, <<>>, <<>>, <<>>, <<>>),
     Area("oceanic plate", "veil-o", RectU(sph, 550, 200, 650, 300), 0, 200*Km, <<>>, <<>>, <<>>, <<>>),
     Area("mantle layer", "veil-m", RectU(sph, 780, 230, 820, 270), 100*Km, 200*Km, <<>>, <<>>, <<>>, <<>>),
     Plume("veil-p", <<XY(sph,300,250), XY(sph,300,250)>>, <<10*Km, 100*Km>>, <<U(sph,30), U(sph,30)>>, <<0, 0>>, <<0, 0>>, 5*Km, 90*Km, <<>>, <<>>, <<>>, <<>>),
     Line("fault", "veil-f", <<XY(sph,250,150), XY(sph,250,350)>>, XY(sph,0,250), 0, 600*Km,
          <<Segment(300*Km, <<60*Km>>, <<0>>, <<90>>)>>, <<>>, <<>>, <<>>, <<>>),
     Line("subducting plate", "veil-s", <<XY(sph,790,300), XY(sph,790,500)>>, XY(sph,1000,400), 0, 600*Km,
          <<Segment(300*Km, <<60*Km>>, <<0>>, <<90>>)>>, <<>>, <<>>, <<>>, <<>>) >>
Features(sph) == Core(sph) \o <<Late(sph)>> \o Veils(sph)


(* a cooling oceanic plate north of everything else: its temperature depends continuously on the
   horizontal position (distance to an oblique ridge), which makes position errors visible *)
Cooling(sph) ==
  Area("oceanic plate", "cooling", RectU(sph, 0, 500, 1000, 1000), 0, 120*Km,
       <<   ("model" :> "half space model") @@ ("min depth" :> 0) @@ ("max depth" :> 120*Km)
         @@ ("spreading velocity" :> Dec(3, -2)) @@ ("top temperature" :> 273) @@ ("bottom temperature" :> 1600)
         @@ ("ridge coordinates" :> << <<XY(sph, -300, 400), XY(sph, 100, 1200)>> >>) >>,
       <<CUniform(<<5>>, "replace")>>, <<>>, <<VUniform(<<3, -4, 12>>)>>)

KSFeatures(sph) == Core(sph) \o <<Cooling(sph), Late(sph)>>     \* positions 1..7 are addressed by Parse.tla
=============================================================================
