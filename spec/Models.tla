------------------------------- MODULE Models -------------------------------
(***************************************************************************)
(* C05 -- models documented by a closed-form expression return that        *)
(* expression (and, last section, C20: cooling models stay inside their     *)
(* envelope).                                                               *)
(*                                                                         *)
(* TLC resolves every DISCRETE question of a case exactly -- which feature  *)
(* type, which model, which sentinel is negative ("use the adiabatic /      *)
(* global value"), how the model's depth range sits in the feature's, which *)
(* operation -- and emits the documented expression for that branch as a    *)
(* symbolic term over the row's depth ($3) and further row cells; the       *)
(* harness evaluates the term with the library's libm and compares with     *)
(* relative tolerance 1e-9.  Worlds use the default thermal constants       *)
(* except where a case sets them.                                           *)
(***************************************************************************)
EXTENDS Wb, Json, SequencesExt

V(n) == [op |-> "var", name |-> n]
D == V("$3")                                         \* the row's depth
Tp == 1600   Alpha == Dec(35, -6)   Cp == 1250   G == 10   Kappa == Dec(804, -9)
Adiabat(d) == Mul(Tp, Exp(Mul(Div(Mul(Alpha, G), Cp), d)))
AdiabatWith(tp, al, cp, d) == Mul(tp, Exp(Mul(Div(Mul(al, G), cp), d)))
Year == 31557600                                      \* 365.25 days, as the code and the documentation use

HM == 2000 * Km
Rect1000 == Rect(0, 0, 1000 * Km, 1000 * Km)
WorldOf(feats) == World(Cartesian, feats) @@ ("gravity model" :> (("model" :> "uniform") @@ ("magnitude" :> G)))
Row3(x, y, d) == <<x * Km, y * Km, HM - d, d>>        \* x, y in km; d in m

Q(lets, expected, rows, tolrel) ==
  [op |-> "qtable", h |-> 1, dim |-> 3, props |-> <<PT>>, let |-> lets, rowlet |-> << <<"want", expected>> >>,
   checks |-> <<[k |-> "tol", at |-> 0, var |-> "want", rel |-> tolrel, abs |-> Dec(1, -9)]>>, rows |-> rows]
B(id, labels, doc, steps) == [id |-> id, labels |-> <<"model">> \o labels, steps |-> <<[op |-> "create", h |-> 1, wb |-> doc]>> \o steps]

AreaTypes == {"continental plate", "oceanic plate", "mantle layer"}
Ops == {"replace", "add", "subtract"}
OpTerm(op, new, d) == CASE op = "replace" -> new [] op = "add" -> Add(Adiabat(d), new) [] op = "subtract" -> Sub(Adiabat(d), new)

(*************************** linear (area features) **************************)
(* ranges <<feature min, feature max, model min, model max>> in km *)
Ranges == {<<0, 100, 0, 100>>, <<0, 100, 20, 100>>, <<0, 100, 0, 60>>, <<20, 100, 0, 150>>, <<10, 90, 30, 70>>, <<30, 200, 0, 120>>}
Sentinels == {<<300, 1300>>, <<-1, 1300>>, <<300, -1>>, <<-1, -1>>}
Max2(a, b) == IF a > b THEN a ELSE b
Min2(a, b) == IF a < b THEN a ELSE b
LinearCase == [type : AreaTypes, r : Ranges, s : Sentinels, op : Ops]
LinearB(c) ==
  LET top == Max2(c.r[1], c.r[3]) * Km  bot == Min2(c.r[2], c.r[4]) * Km
      ttop == IF c.s[1] < 0 THEN Adiabat(top) ELSE c.s[1]
      tbot == IF c.s[2] < 0 THEN Adiabat(bot) ELSE c.s[2]
      lin == Add(ttop, Mul(Sub(D, top), Div(Sub(tbot, ttop), bot - top)))
      inside == {top, bot, (top + bot) \div 2, top + 1, bot - 1}
      (* in the feature but outside the model's own range: the temperature stays what it was (the background) *)
      outside == {d \in {c.r[1] * Km + 1, c.r[2] * Km - 1} : d < top \/ d > bot}
      doc == WorldOf(<<Area(c.type, "f", Rect1000, c.r[1] * Km, c.r[2] * Km,
                           <<   ("model" :> "linear") @@ ("min depth" :> c.r[3] * Km) @@ ("max depth" :> c.r[4] * Km)
                             @@ ("top temperature" :> c.s[1]) @@ ("bottom temperature" :> c.s[2]) @@ ("operation" :> c.op) >>, <<>>, <<>>, <<>>)>>)
  IN B(<<"linear", c>>, <<"linear", c.type, IF c.r[1] > c.r[3] THEN "feature-top-below-model-top" ELSE "model-top-at-or-below-feature-top">>, doc,
       << Q(<<>>, OpTerm(c.op, lin, D), [i \in 1..Cardinality(inside) |-> Row3(500, 500, SetToSeq(inside)[i])], Dec(1, -9)) >>
       \o (IF outside = {} THEN <<>> ELSE << Q(<<>>, Adiabat(D), [i \in 1..Cardinality(outside) |-> Row3(500, 500, SetToSeq(outside)[i])], Dec(1, -12)) >>))

(* the feature's max depth varies laterally (values at points, an affine surface): the local bottom of the model's range is
   the feature's LOCAL max depth; cell 4 of a row carries it *)
LinVarCase == [type : AreaTypes, s : Sentinels]
LinVarB(c) ==
  LET bot == V("$4")
      ttop == IF c.s[1] < 0 THEN Adiabat(0) ELSE c.s[1]
      tbot == IF c.s[2] < 0 THEN Adiabat(bot) ELSE c.s[2]
      lin == Add(ttop, Mul(D, Div(Sub(tbot, ttop), bot)))
      P(x, y) == <<x * Km, y * Km>>
      doc == WorldOf(<<Area(c.type, "f", Rect(100 * Km, 100 * Km, 1100 * Km, 1100 * Km), 0,
                           << <<50 * Km, <<P(100, 100), P(100, 1100)>>>>, <<150 * Km, <<P(1100, 100), P(1100, 1100)>>>> >>,
                           <<   ("model" :> "linear") @@ ("min depth" :> 0) @@ ("max depth" :> 400 * Km)
                             @@ ("top temperature" :> c.s[1]) @@ ("bottom temperature" :> c.s[2]) >>, <<>>, <<>>, <<>>)>>)
      (* local max depth at x km: 50 + (x - 100) / 10 km *)
      rows == [i \in 1..9 |-> LET x == <<300, 600, 900>>[((i - 1) \div 3) + 1]
                                  lb == (50 + (x - 100) \div 10) * Km
                                  d == <<1 * Km, lb \div 2, lb - 1>>[((i - 1) % 3) + 1]
                              IN Row3(x, 500, d) \o <<lb>>]
  IN B(<<"linear-varying", c>>, <<"linear", c.type, "laterally-varying-feature-depth">>, doc, << Q(<<>>, lin, rows, Dec(1, -8)) >>)

(*************************** uniform *****************************************)
UniformCase == [type : AreaTypes, op : Ops]
UniformB(c) ==
  B(<<"uniform", c>>, <<"uniform", c.type>>,
    WorldOf(<<Area(c.type, "f", Rect1000, 0, 200 * Km, <<TUniform(777, c.op)>>, <<>>, <<>>, <<VUniform(<<Dec(15, -1), -2, Dec(25, -2)>>)>>)>>),
    << Q(<<>>, OpTerm(c.op, 777, D), <<Row3(500, 500, 50 * Km), Row3(10, 990, 0), Row3(500, 500, 200 * Km)>>, Dec(1, -12)),
       [op |-> "qtable", h |-> 1, dim |-> 3, props |-> <<PV>>, checks |-> <<[k |-> "eq", at |-> 0, col |-> 4], [k |-> "eq", at |-> 1, col |-> 5], [k |-> "eq", at |-> 2, col |-> 6]>>,
        rows |-> <<Row3(500, 500, 50 * Km) \o <<Dec(15, -1), -2, Dec(25, -2)>>>>] >>)

(*************************** adiabatic ***************************************)
AdParams == {<<-1, -1, -1>>, <<1400, -1, -1>>, <<-1, 2, 1000>>, <<1500, 1, 800>>}      \* potential T, alpha in 1e-5 /K, cp; -1 = global
AdTypes == AreaTypes \cup {"subducting plate", "fault"}
AdCase == [type : AdTypes, p : AdParams, op : {"replace", "add"}]
LineFeat(type, tm, cm) == Line(type, "f", <<<<500 * Km, -500 * Km>>, <<500 * Km, 1500 * Km>>>>, <<1500 * Km, 500 * Km>>, 0, 1000 * Km,
                               <<Segment(400 * Km, <<200 * Km>>, <<0>>, <<90>>)>>, tm, cm, <<>>, <<>>)
AdB(c) ==
  LET tp == IF c.p[1] < 0 THEN Tp ELSE c.p[1]
      al == IF c.p[2] < 0 THEN Alpha ELSE Dec(c.p[2], -5)
      cp == IF c.p[3] < 0 THEN Cp ELSE c.p[3]
      m == ("model" :> "adiabatic") @@ ("potential mantle temperature" :> c.p[1]) @@ ("thermal expansion coefficient" :> (IF c.p[2] < 0 THEN -1 ELSE Dec(c.p[2], -5)))
           @@ ("specific heat" :> c.p[3]) @@ ("operation" :> c.op)
      doc == WorldOf(<<IF c.type \in AreaTypes THEN Area(c.type, "f", Rect1000, 0, 400 * Km, <<m>>, <<>>, <<>>, <<>>) ELSE LineFeat(c.type, <<m>>, <<>>)>>)
      (* line features: a vertical slab / fault at x = 500 km; the probe sits 20 km inside it *)
      x == IF c.type = "subducting plate" THEN 480 ELSE IF c.type = "fault" THEN 510 ELSE 500
  IN B(<<"adiabatic", c>>, <<"adiabatic", c.type>>, doc,
       << Q(<<>>, OpTerm(c.op, AdiabatWith(tp, al, cp, D), D), <<Row3(x, 500, 10 * Km), Row3(x, 500, 150 * Km), Row3(x, 500, 390 * Km)>>, Dec(1, -9)) >>)

(*************************** Chapman geotherm ********************************)
ChapCase == [ttop : {300, -1}, fmin : {0, 20}, op : {"replace", "add"}]
ChapB(c) ==
  LET top == c.fmin * Km
      t0 == IF c.ttop < 0 THEN Adiabat(top) ELSE c.ttop
      q == Dec(55, -3)  k == Dec(25, -1)  A == Dec(1, -6)
      dz == Sub(D, top)
      want == Sub(Add(t0, Mul(Div(q, k), dz)), Mul(Div(A, Mul(2, k)), Mul(dz, dz)))
      doc == WorldOf(<<Area("continental plate", "f", Rect1000, top, 150 * Km,
                           <<("model" :> "chapman") @@ ("top temperature" :> c.ttop) @@ ("top heat flux" :> q) @@ ("thermal conductivity" :> k)
                             @@ ("heat generation per unit volume" :> A) @@ ("operation" :> c.op)>>, <<>>, <<>>, <<>>)>>)
  IN B(<<"chapman", c>>, <<"chapman", IF c.ttop < 0 THEN "adiabatic-top" ELSE "given-top">>, doc,
       << Q(<<>>, OpTerm(c.op, want, D), <<Row3(500, 500, top), Row3(500, 500, top + 30 * Km), Row3(500, 500, 150 * Km)>>, Dec(1, -9)) >>)

(*************************** cooling models of the oceanic plate **************)
(* ridge along x = 0; a probe at x km is x km from it; age = distance / spreading velocity *)
CoolCase == [model : {"half space model", "plate model", "plate model constant age"}, tb : {1600, -1}, vel : {3, 8}, op : {"replace", "add"}]
Pi == [op |-> "pi"]
CoolB(c) ==
  LET L == 120 * Km
      u == Div(Dec(c.vel, -2), Year)                     \* spreading velocity in m/s
      tt == 273
      tb == IF c.tb < 0 THEN Adiabat(D) ELSE c.tb
      dist == Mul(V("$4"), Km)                            \* cell 4: distance to the ridge in km
      age == IF c.model = "plate model constant age" THEN Mul(Mul(V("$5"), 1000000), Year) ELSE Div(dist, u)
      hs == Add(tb, Mul(Sub(tt, tb), Erfc(Div(D, Mul(2, Sqrt(Mul(Kappa, age)))))))
      n == V("n")
      npi == Mul(n, Pi)
      geom == Mul(Div(2, npi), Sin(Div(Mul(npi, D), L)))
      (* Fowler: exp( (uL/2k - sqrt(u^2L^2/4k^2 + n^2 pi^2)) * u t / L ) with u t the distance to the ridge *)
      pmexp == Exp(Mul(Sub(Div(Mul(u, L), Mul(2, Kappa)), Sqrt(Add(Div(Mul(Mul(u, u), Mul(L, L)), Mul(4, Mul(Kappa, Kappa))), Mul(npi, npi)))), Div(Mul(u, age), L)))
      caexp == Exp(Div(Mul(Mul(-1, Mul(npi, npi)), Mul(Kappa, age)), Mul(L, L)))
      series(e) == [op |-> "series", var |-> "n", lo |-> 1, hi |-> 100, f |-> Mul(geom, e)]
      pm(e) == Add(tt, Mul(Sub(tb, tt), Add(Div(D, L), series(e))))
      want == CASE c.model = "half space model" -> hs [] c.model = "plate model" -> pm(pmexp) [] OTHER -> pm(caexp)
      m ==    ("model" :> c.model) @@ ("min depth" :> 0) @@ ("max depth" :> L) @@ ("top temperature" :> tt) @@ ("bottom temperature" :> c.tb)
           @@ ("operation" :> c.op)
           @@ (IF c.model = "plate model constant age" THEN ("plate age" :> Mul(c.vel, 10000000))
               ELSE ("spreading velocity" :> Dec(c.vel, -2)) @@ ("ridge coordinates" :> << << <<0, -2000 * Km>>, <<0, 3000 * Km>> >> >>))
      doc == WorldOf(<<Area("oceanic plate", "f", Rect(-100 * Km, 0, 1000 * Km, 1000 * Km), 0, L, <<m>>, <<>>, <<>>, <<>>)>>)
      rows == [i \in 1..9 |-> LET x == <<50, 400, 900>>[((i - 1) \div 3) + 1]  d == <<5, 40, 110>>[((i - 1) % 3) + 1] * Km
                              IN Row3(x, 500, d) \o <<x, c.vel * 10>>]
  IN B(<<"cooling", c>>, <<c.model, IF c.tb < 0 THEN "adiabatic-bottom" ELSE "given-bottom">>, doc,
       << Q(<<>>, OpTerm(c.op, want, D), rows, Dec(1, -8)) >>)

(*************************** Gaussian plume **********************************)
GaussCase == [tc : {<<200, 400>>, <<-1, -1>>}, op : {"add", "replace"}]
GaussB(c) ==
  LET d1 == 50 * Km  d2 == 300 * Km
      f == Div(Sub(D, d1), d2 - d1)
      lerp(a, b) == Add(Mul(Sub(1, f), a), Mul(f, b))
      tc == IF c.tc[1] < 0 THEN Adiabat(D) ELSE lerp(c.tc[1], c.tc[2])
      sig == lerp(Dec(3, -1), Dec(5, -1))
      r == Div(V("$4"), 100)                               \* cell 4: distance from the axis in km; the plume radius is 100 km
      want == Mul(tc, Exp(Div(Mul(-1, Mul(r, r)), Mul(2, Mul(sig, sig)))))
      doc == WorldOf(<<Plume("f", <<<<500 * Km, 500 * Km>>, <<500 * Km, 500 * Km>>>>, <<d1, d2>>, <<100 * Km, 100 * Km>>, <<0, 0>>, <<0, 0>>, 10 * Km, 400 * Km,
                            <<("model" :> "gaussian") @@ ("operation" :> c.op) @@ ("centerline temperatures" :> <<c.tc[1], c.tc[2]>>)
                              @@ ("gaussian sigmas" :> <<Dec(3, -1), Dec(5, -1)>>) @@ ("depths" :> <<d1, d2>>)>>, <<>>, <<>>, <<>>)>>)
      rows == [i \in 1..6 |-> LET rr == <<0, 50, 90>>[((i - 1) % 3) + 1]  d == <<100, 225>>[((i - 1) \div 3) + 1] * Km IN Row3(500 + rr, 500, d) \o <<rr>>]
  IN B(<<"gaussian", c>>, <<"gaussian", IF c.tc[1] < 0 THEN "adiabatic-centerline" ELSE "given-centerline">>, doc,
       << Q(<<>>, OpTerm(c.op, want, D), rows, Dec(1, -9)) >>)

(*************************** slab / fault: linear in the distance from the plane; smooth composition ******)
LineLinCase == [type : {"subducting plate", "fault"}, s : Sentinels, op : {"replace", "add"}]
LineLinB(c) ==
  LET lo == 10 * Km  hi == 80 * Km
      dd == Mul(V("$4"), Km)                              \* cell 4: distance from the slab top / fault centre in km
      t1 == IF c.s[1] < 0 THEN Adiabat(lo) ELSE c.s[1]
      t2 == IF c.s[2] < 0 THEN Adiabat(hi) ELSE c.s[2]
      want == Add(t1, Mul(Sub(dd, lo), Div(Sub(t2, t1), hi - lo)))
      m == IF c.type = "fault"
           THEN ("model" :> "linear") @@ ("min distance fault center" :> lo) @@ ("max distance fault center" :> hi) @@ ("center temperature" :> c.s[1]) @@ ("side temperature" :> c.s[2]) @@ ("operation" :> c.op)
           ELSE ("model" :> "linear") @@ ("min distance slab top" :> lo) @@ ("max distance slab top" :> hi) @@ ("top temperature" :> c.s[1]) @@ ("bottom temperature" :> c.s[2]) @@ ("operation" :> c.op)
      doc == WorldOf(<<LineFeat(c.type, <<m>>, <<>>)>>)
      (* vertical slab: its body lies west of x = 500 km, distance from its top = 500 - x; fault: |x - 500| *)
      \* distances strictly inside the model's range: the distance itself is computed in floating point, its ends are not exact
      rows == [i \in 1..6 |-> LET k == <<15, 40, 75>>[((i - 1) % 3) + 1]
                                  x == IF c.type = "fault" /\ i > 3 THEN 500 + k ELSE 500 - k
                              IN Row3(x, 500, 100 * Km) \o <<k>>]
  IN B(<<"line-linear", c>>, <<"linear-in-distance", c.type>>, doc, << Q(<<>>, OpTerm(c.op, want, D), rows, Dec(1, -8)) >>)

(*************************** smooth composition (slab, fault): documented anchor values ***************************)
(* the documentation defines the fraction at the top / bottom of the slab layer and at the centre / sides of the fault, with a smooth
   transition in between: the anchors are asserted to 1e-3, everything in between only to lie between the two fractions *)
SmoothCase == [type : {"subducting plate", "fault"}, fr : {<<Dec(1, 0), Dec(0, 0)>>, <<Dec(8, -1), Dec(2, -1)>>, <<Dec(25, -2), Dec(1, 0)>>}, op : {"replace", "add"}]
SmoothB(c) ==
  LET span == 60 * Km
      m == IF c.type = "fault"
           THEN    ("model" :> "smooth") @@ ("compositions" :> <<3>>) @@ ("min distance fault center" :> 0) @@ ("side distance fault center" :> span)
                @@ ("center fractions" :> <<c.fr[1]>>) @@ ("side fractions" :> <<c.fr[2]>>) @@ ("operation" :> c.op)
           ELSE    ("model" :> "smooth") @@ ("compositions" :> <<3>>) @@ ("min distance slab top" :> 0) @@ ("max distance slab top" :> span)
                @@ ("top fractions" :> <<c.fr[1]>>) @@ ("bottom fractions" :> <<c.fr[2]>>) @@ ("operation" :> c.op)
      doc == WorldOf(<<LineFeat(c.type, <<>>, <<m>>)>>)
      row(k, v) == <<(500 - k) * Km, 500 * Km, HM - 100 * Km, 100 * Km, v>>
  IN B(<<"smooth", c>>, <<"smooth-composition", c.type, IF c.fr[2] = Dec(0, 0) THEN "zero-far-fraction" ELSE "non-zero-far-fraction">>, doc,
       << [op |-> "qtable", h |-> 1, dim |-> 3, props |-> <<PC(3)>>,
           checks |-> <<[k |-> "tol", at |-> 0, col |-> 4, rel |-> 0, abs |-> Dec(1, -3)]>>,
           rows |-> <<row(1, c.fr[1]), row(59, c.fr[2])>>],
          [op |-> "qtable", h |-> 1, dim |-> 3, props |-> <<PC(3)>>, rowlet |-> << <<"a", c.fr[1]>>, <<"b", c.fr[2]>> >>,
           checks |-> <<[k |-> "between", at |-> 0, col |-> 4, col2 |-> 5, slack |-> Dec(1, -9)]>>,
           rows |-> [i \in 1..5 |-> <<(500 - 10 * i) * Km, 500 * Km, HM - 100 * Km, 100 * Km>>]] >>)

(*************************** uniform temperature / composition / velocity of slabs, faults and plumes, with the model's own range *****)
AllLine == {"subducting plate", "fault"}
URangeCase == [type : AllLine \cup {"plume"}, op : Ops]
URangeB(c) ==
  LET lo == 20  hi == 70                                  \* km: distance from the slab top / fault centre, or depth for the plume
      tm == IF c.type = "plume" THEN TUniform(555, c.op) @@ ("min depth" :> lo * Km) @@ ("max depth" :> hi * Km)
            ELSE TUniform(555, c.op) @@ ((IF c.type = "fault" THEN "min distance fault center" ELSE "min distance slab top") :> lo * Km)
                                    @@ ((IF c.type = "fault" THEN "max distance fault center" ELSE "max distance slab top") :> hi * Km)
      vm == VUniform(<<Dec(15, -1), -2, Dec(25, -2)>>)
      doc == WorldOf(<<IF c.type = "plume"
                       THEN Plume("f", <<<<500 * Km, 500 * Km>>, <<500 * Km, 500 * Km>>>>, <<50 * Km, 300 * Km>>, <<100 * Km, 100 * Km>>, <<0, 0>>, <<0, 0>>, 10 * Km, 400 * Km,
                                  <<tm>>, <<>>, <<>>, <<vm>>)
                       ELSE Line(c.type, "f", <<<<500 * Km, -500 * Km>>, <<500 * Km, 1500 * Km>>>>, <<1500 * Km, 500 * Km>>, 0, 1000 * Km,
                                 <<Segment(400 * Km, <<200 * Km>>, <<0>>, <<90>>)>>, <<tm>>, <<>>, <<>>, <<vm>>)>>)
      (* rows <<x km, depth km, in the model's range?>> *)
      pts == IF c.type = "plume" THEN << <<500, 30, TRUE>>, <<530, 60, TRUE>>, <<500, 15, FALSE>>, <<500, 90, FALSE>> >>
             ELSE IF c.type = "fault" THEN << <<470, 100, TRUE>>, <<540, 100, TRUE>>, <<490, 100, FALSE>>, <<585, 100, FALSE>> >>
             ELSE << <<470, 100, TRUE>>, <<440, 100, TRUE>>, <<490, 100, FALSE>>, <<415, 100, FALSE>> >>
  IN B(<<"uniform-range", c>>, <<"uniform-with-range", c.type>>, doc,
       << [op |-> "qtable", h |-> 1, dim |-> 3, props |-> <<PT, PV>>, rowlet |-> << <<"want", IF TRUE THEN V("$4") ELSE 0>> >>,
           checks |-> <<[k |-> "tol", at |-> 0, col |-> 4, rel |-> Dec(1, -12), abs |-> 0],
                        [k |-> "eq", at |-> 1, col |-> 5], [k |-> "eq", at |-> 2, col |-> 6], [k |-> "eq", at |-> 3, col |-> 7]>>,
           rows |-> [i \in 1..4 |-> <<pts[i][1] * Km, 500 * Km, HM - pts[i][2] * Km, pts[i][2] * Km,
                                       IF pts[i][3] THEN OpTerm(c.op, 555, pts[i][2] * Km) ELSE Adiabat(pts[i][2] * Km),
                                       Dec(15, -1), -2, Dec(25, -2)>>]] >>)

(*************************** uniform grains: sizes and orientations as given; z-x-z Euler angles ************************************)
(* documented: every grain gets the listed size (a negative size: 1 / number of grains) and the listed rotation matrix, or the
   matrix of the listed z-x-z Euler angles (degrees):
     [ c2 c1 - ct s1 s2   -c2 s1 - ct c1 s2   -s2 st ]
     [ s2 c1 + ct s1 c2   -s2 s1 + ct c1 c2    c2 st ]        c1 = cos phi1, ct = cos theta, c2 = cos phi2 ...
     [ -st s1             -st c1               ct    ]
   Slabs and faults average the orientations of the two adjacent sections (identical here), so for them the matrices must be
   proper rotations and come back up to rounding. *)
SixTypes == AreaTypes \cup {"plume", "subducting plate", "fault"}
GrainCase == [type : SixTypes, how : {"matrices", "euler"}, given : BOOLEAN]     \* given: the size is listed (0.3); else -1
EulerM(a, b, c) ==
  LET c1 == Cos(Rad(a))  s1 == Sin(Rad(a))  ct == Cos(Rad(b))  st == Sin(Rad(b))  c2 == Cos(Rad(c))  s2 == Sin(Rad(c)) IN
  << Sub(Mul(c2, c1), Mul(ct, Mul(s1, s2))), Sub(Mul(-1, Mul(c2, s1)), Mul(ct, Mul(c1, s2))), Mul(-1, Mul(s2, st)),
     Add(Mul(s2, c1), Mul(ct, Mul(s1, c2))), Add(Mul(-1, Mul(s2, s1)), Mul(ct, Mul(c1, c2))), Mul(c2, st),
     Mul(-1, Mul(st, s1)), Mul(-1, Mul(st, c1)), ct >>
GrainB(c) ==
  LET line == c.type \in {"subducting plate", "fault"}
      rot == << <<0, -1, 0>>, <<1, 0, 0>>, <<0, 0, 1>> >>                   \* a quarter turn about the vertical
      given == IF line THEN rot ELSE Mat(1)
      gm == ("model" :> "uniform") @@ ("compositions" :> <<2>>) @@ ("grain sizes" :> <<IF c.given THEN Dec(3, -1) ELSE -1>>)
            @@ (IF c.how = "matrices" THEN ("rotation matrices" :> <<given>>) ELSE ("Euler angles z-x-z" :> <<<<10, 20, 30>>>>))
      want9 == IF c.how = "matrices" THEN <<given[1][1], given[1][2], given[1][3], given[2][1], given[2][2], given[2][3], given[3][1], given[3][2], given[3][3]>>
               ELSE EulerM(10, 20, 30)
      sz == IF c.given THEN Dec(3, -1) ELSE Dec(5, -1)                         \* two grains are asked for
      want == <<sz, sz>> \o want9 \o want9
      doc == WorldOf(<<CASE c.type \in AreaTypes -> Area(c.type, "f", Rect1000, 0, 200 * Km, <<>>, <<>>, <<gm>>, <<>>)
                         [] c.type = "plume" -> Plume("f", <<<<500 * Km, 500 * Km>>, <<500 * Km, 500 * Km>>>>, <<50 * Km, 300 * Km>>, <<100 * Km, 100 * Km>>, <<0, 0>>, <<0, 0>>,
                                                     10 * Km, 400 * Km, <<>>, <<>>, <<gm>>, <<>>)
                         [] OTHER -> Line(c.type, "f", <<<<500 * Km, -500 * Km>>, <<500 * Km, 1500 * Km>>>>, <<1500 * Km, 500 * Km>>, 0, 1000 * Km,
                                          <<Segment(400 * Km, <<200 * Km>>, <<0>>, <<90>>)>>, <<>>, <<>>, <<gm>>, <<>>)>>)
      x == IF c.type = "subducting plate" THEN 450 ELSE 500
  IN B(<<"grains-uniform", c>>, <<"grains-uniform", c.type, c.how>>, doc,
       << [op |-> "qtable", h |-> 1, dim |-> 3, props |-> <<PG(2, 2)>>,
           checks |-> [i \in 1..20 |-> [k |-> "tol", at |-> i - 1, col |-> 3 + i, rel |-> Dec(1, -12), abs |-> Dec(1, -12)]],
           rows |-> << <<x * Km, 500 * Km, HM - 100 * Km, 100 * Km>> \o want >>] >>
       \* another composition label: no grains are set (area features and plumes; what slabs and faults do to labels they
       \* do not list is C02's subject and its known finding)
       \o (IF line THEN <<>> ELSE
           << [op |-> "qtable", h |-> 1, dim |-> 3, props |-> <<PG(1, 2)>>, checks |-> [i \in 1..20 |-> [k |-> "eq", at |-> i - 1, col |-> 4]],
               rows |-> << <<x * Km, 500 * Km, HM - 100 * Km, 100 * Km, 0>> >>] >>))

(*************************** uniform composition: the listed labels get their fractions, inside the model's own range **********)
COps4 == {"replace", "replace defined only", "add", "subtract"}
CompCase == [type : SixTypes, op : COps4]
CompB(c) ==
  LET lo == 20  hi == 70                                  \* km: depth range (area features, plume) or distance range (slab, fault)
      line == c.type \in {"subducting plate", "fault"}
      cm == CUniformF(<<1, 3>>, <<Dec(25, -2), Dec(75, -2)>>, c.op)
            @@ (IF line THEN ((IF c.type = "fault" THEN "min distance fault center" ELSE "min distance slab top") :> lo * Km)
                             @@ ((IF c.type = "fault" THEN "max distance fault center" ELSE "max distance slab top") :> hi * Km)
                ELSE ("min depth" :> lo * Km) @@ ("max depth" :> hi * Km))
      doc == WorldOf(<<CASE c.type \in AreaTypes -> Area(c.type, "f", Rect1000, 0, 200 * Km, <<>>, <<cm>>, <<>>, <<>>)
                         [] c.type = "plume" -> Plume("f", <<<<500 * Km, 500 * Km>>, <<500 * Km, 500 * Km>>>>, <<50 * Km, 300 * Km>>, <<100 * Km, 100 * Km>>, <<0, 0>>, <<0, 0>>,
                                                     10 * Km, 400 * Km, <<>>, <<cm>>, <<>>, <<>>)
                         [] OTHER -> Line(c.type, "f", <<<<500 * Km, -500 * Km>>, <<500 * Km, 1500 * Km>>>>, <<1500 * Km, 500 * Km>>, 0, 1000 * Km,
                                          <<Segment(400 * Km, <<200 * Km>>, <<0>>, <<90>>)>>, <<>>, <<cm>>, <<>>, <<>>)>>)
      sgn == IF c.op = "subtract" THEN -1 ELSE 1
      (* rows <<x km, depth km, in the model's range?>> *)
      pts == IF ~line THEN << <<500, 30, TRUE>>, <<530, 60, TRUE>>, <<500, 15, FALSE>>, <<500, 90, FALSE>> >>
             ELSE IF c.type = "fault" THEN << <<470, 100, TRUE>>, <<540, 100, TRUE>>, <<490, 100, FALSE>>, <<585, 100, FALSE>> >>
             ELSE << <<470, 100, TRUE>>, <<440, 100, TRUE>>, <<490, 100, FALSE>>, <<415, 100, FALSE>> >>
  IN B(<<"composition-uniform", c>>, <<"composition-uniform", c.type, c.op>>, doc,
       << [op |-> "qtable", h |-> 1, dim |-> 3, props |-> <<PC(1), PC(3), PC(2)>>,
           checks |-> <<[k |-> "eq", at |-> 0, col |-> 4], [k |-> "eq", at |-> 1, col |-> 5], [k |-> "eq", at |-> 2, col |-> 6]>>,
           rows |-> [i \in 1..4 |-> <<pts[i][1] * Km, 500 * Km, HM - pts[i][2] * Km, pts[i][2] * Km,
                                       IF pts[i][3] THEN Dec(sgn * 25, -2) ELSE Dec(0, 0), IF pts[i][3] THEN Dec(sgn * 75, -2) ELSE Dec(0, 0), Dec(0, 0)>>]] >>)

(*************************** tian2019 water content ****************************)
(* Beyond the models C05 lists: the bound-water parameterisation of Tian et   *)
(* al. (2019) as the oceanic plate and the subducting plate offer it.  The    *)
(* model's documentation fixes everything but the polynomials themselves:     *)
(* lithostatic pressure density * 9.81 * depth in GPa, never below 0.5 GPa,   *)
(* never above the cut-off pressure; the temperature is the finished world's  *)
(* temperature at the point; the result is capped by the initial water        *)
(* content and converted from wt% to a fraction.  The polynomials (ln c_sat   *)
(* in P - in log10 P for sediment -, ln LR in 1/P, T_d in P) are tables of    *)
(* this module.  Deviations of this family are reported as information, not   *)
(* as violations of C05.                                                      *)
(*******************************************************************************)
Pow(x, y) == Bin("pow", x, y)
Ln(x) == Un("log", x)
Poly(cs, x) == [op |-> "sum", l |-> [i \in 1..Len(cs) |-> Mul(cs[i], Pow(x, Len(cs) - i))]]
Lithologies == <<"peridotite", "gabbro", "MORB", "sediment">>
LRPoly == << <<Dec(-190609, -4), Dec(168983, -3), Dec(-630032, -3), Dec(128184, -2), Dec(-154314, -2), Dec(111188, -2), Dec(-459142, -3), Dec(954143, -4), Dec(197246, -5)>>,
             <<Dec(-181745, -5), Dec(767198, -5), Dec(-108507, -4), Dec(509329, -5), Dec(814519, -5)>>,
             <<Dec(-178177, -5), Dec(750871, -5), Dec(-104840, -4), Dec(519725, -5), Dec(796365, -5)>>,
             <<Dec(-203283, -5), Dec(108186, -4), Dec(-212119, -4), Dec(183351, -4), Dec(-648711, -5), Dec(832459, -5)>> >>
CSatPoly == << <<Dec(115628, -8), Dec(242179, -5)>>,
               <<Dec(-176673, -7), Dec(893044, -7), Dec(152732, -5)>>,
               <<Dec(102725, -7), Dec(-115390, -6), Dec(324452, -6), Dec(141588, -5)>>,
               <<Dec(-150662, -6), Dec(301807, -6), Dec(101867, -5)>> >>
TdPoly == << <<Dec(-154627, -4), Dec(949716, -4), Dec(636603, -3)>>,
             <<Dec(-172277, -5), Dec(205898, -4), Dec(637517, -3)>>,
             <<Dec(-381280, -5), Dec(227809, -4), Dec(638049, -3)>>,
             <<Dec(283277, -5), Dec(-247593, -4), Dec(859090, -4), Dec(524898, -3)>> >>
TianCase == [type : {"oceanic plate", "subducting plate"}, lith : 1..4, temp : {600, 950}, w0 : {5, 1}, cut : {4, 26}, op : {"replace", "add", "replace defined only"}]
TianB(c) ==
  LET rho == 3100
      p == MaxT(Dec(5, -1), MinT(Div(Mul(Mul(rho, Dec(981, -2)), D), 1000000000), c.cut))
      lncsat == Poly(CSatPoly[c.lith], IF c.lith = 4 THEN Div(Ln(p), Ln(10)) ELSE p)
      lnlr == Poly(LRPoly[c.lith], Div(1, p))
      td == Poly(TdPoly[c.lith], p)
      water == Div(MinT(c.w0, Mul(Exp(lncsat), Exp(Mul(Exp(lnlr), Sub(Div(1, c.temp), Div(1, td)))))), 100)
      want == IF c.op = "add" THEN Add(Dec(25, -2), water) ELSE water
      before == CUniformF(<<1>>, <<Dec(25, -2)>>, "replace")
      tian == ("model" :> "tian water content") @@ ("compositions" :> <<1>>) @@ ("lithology" :> Lithologies[c.lith]) @@ ("density" :> rho)
              @@ ("initial water content" :> c.w0) @@ ("cutoff pressure" :> c.cut) @@ ("operation" :> c.op)
      doc == WorldOf(<<IF c.type = "oceanic plate" THEN Area(c.type, "f", Rect1000, 0, 400 * Km, <<TUniform(c.temp, "replace")>>, <<before, tian>>, <<>>, <<>>)
                       ELSE LineFeat(c.type, <<TUniform(c.temp, "replace")>>, <<before, tian>>)>>)
      x == IF c.type = "subducting plate" THEN 480 ELSE 500
  IN B(<<"tian", c>>, <<"tian", c.type, Lithologies[c.lith]>>, doc,
       << [op |-> "qtable", h |-> 1, dim |-> 3, props |-> <<PC(1)>>, let |-> <<>>, rowlet |-> << <<"want", want>> >>,
           checks |-> <<[k |-> "tol", at |-> 0, var |-> "want", rel |-> Dec(1, -9), abs |-> Dec(1, -12)]>>,
           rows |-> <<Row3(x, 500, 5 * Km), Row3(x, 500, 40 * Km), Row3(x, 500, 120 * Km), Row3(x, 500, 250 * Km), Row3(x, 500, 390 * Km)>>] >>)

VARIABLE case
Cases == ({"composition-uniform"} \X CompCase) \cup ({"grains-uniform"} \X GrainCase) \cup    ({"uniform-range"} \X URangeCase) \cup ({"smooth"} \X SmoothCase) \cup    ({"linear"} \X LinearCase) \cup ({"linear-varying"} \X LinVarCase) \cup ({"uniform"} \X UniformCase) \cup ({"adiabatic"} \X AdCase) \cup ({"chapman"} \X ChapCase)
       \cup ({"cooling"} \X CoolCase) \cup ({"gaussian"} \X GaussCase) \cup ({"line-linear"} \X LineLinCase) \cup ({"tian"} \X TianCase)
Init == case \in Cases
Next == UNCHANGED case
Behaviour == CASE case[1] = "composition-uniform" -> CompB(case[2]) [] case[1] = "grains-uniform" -> GrainB(case[2]) [] case[1] = "linear" -> LinearB(case[2]) [] case[1] = "linear-varying" -> LinVarB(case[2]) [] case[1] = "uniform" -> UniformB(case[2]) [] case[1] = "adiabatic" -> AdB(case[2])
               [] case[1] = "chapman" -> ChapB(case[2]) [] case[1] = "cooling" -> CoolB(case[2]) [] case[1] = "gaussian" -> GaussB(case[2])
               [] case[1] = "line-linear" -> LineLinB(case[2]) [] case[1] = "smooth" -> SmoothB(case[2]) [] case[1] = "uniform-range" -> URangeB(case[2]) [] case[1] = "tian" -> TianB(case[2])
Emit == PrintT(<<"B", ToJson(Behaviour)>>)
=============================================================================
