------------------------------- MODULE Motion -------------------------------
(***************************************************************************)
(* C08 -- answers are invariant under rigid motions of world plus query.   *)
(*                                                                         *)
(* A world is written against a FRAME.  Every coordinate-bearing entry of  *)
(* the file -- feature coordinates, dip points, ridge coordinates, the     *)
(* points of depth surfaces, plume centres, the cross section -- is made   *)
(* by the single operator XYf(frame, x, y); the only other entry a         *)
(* rotation touches is the plume's rotation angle (an azimuth).  So        *)
(* Apply(g, world) = the same world written against the frame g, and the   *)
(* list of coordinate-bearing entries cannot be forgotten in one place and *)
(* remembered in another.                                                  *)
(*                                                                         *)
(* Cartesian frames: rotation about the vertical by an angle with rational *)
(* cosine and sine (multiples of 90 degrees, 3-4-5, 5-12-13) followed by a *)
(* translation (up to 1e7 m).  Spherical frames: a longitude offset in     *)
(* whole degrees, including offsets that carry features across the +-180   *)
(* meridian; query points are also given with longitude L +- 360.          *)
(*                                                                         *)
(* TLC checks that frames compose exactly (a motion followed by its        *)
(* inverse is the identity on every lattice point); the replay builds the  *)
(* base world and the moved world and compares answers at p and g.p.       *)
(***************************************************************************)
EXTENDS Wb, Json, SequencesExt

R == 6371000
H == 3000 * Km

(* frame: Cartesian [sph = FALSE, c, s, n (cos = c/n, sin = s/n), tx, ty (km)]; spherical [sph = TRUE, dlon (degrees)] *)
Identity == [sph |-> FALSE, c |-> 1, s |-> 0, n |-> 1, tx |-> 0, ty |-> 0]
CartFrames == { [sph |-> FALSE, c |-> r[1], s |-> r[2], n |-> r[3], tx |-> t[1], ty |-> t[2]] :
                  r \in {<<1, 0, 1>>, <<0, 1, 1>>, <<-1, 0, 1>>, <<3, 4, 5>>, <<-4, 3, 5>>, <<5, -12, 13>>},
                  t \in {<<0, 0>>, <<1000, -2000>>, <<10000, 10000>>} } \ {Identity}
SphFrames == {[sph |-> TRUE, dlon |-> d] : d \in {30, 100, 170, 175, 177, -175, -183, -185}}

U(f, km) == IF f.sph THEN Rat(km, 100) ELSE km * Km
XYf(f, x, y) == IF f.sph THEN <<Rat(x + 100 * f.dlon, 100), Rat(y, 100)>>
                ELSE <<Rat((f.c * x - f.s * y + f.n * f.tx) * Km, f.n), Rat((f.s * x + f.c * y + f.n * f.ty) * Km, f.n)>>
RectF(f, x0, y0, x1, y1) == <<XYf(f, x0, y0), XYf(f, x1, y0), XYf(f, x1, y1), XYf(f, x0, y1)>>
(* azimuth from north, clockwise: a counter-clockwise rotation of the world by phi lowers it by phi *)
Azimuth(f, a) == IF f.sph \/ (f.c = 1 /\ f.s = 0) THEN a ELSE Sub(a, Un("rad2deg", Bin("atan2", f.s, f.c)))

(* lattice check of the group structure: rotating by (c, s) and then by (c, -s) is the identity, exactly *)
InverseOK == \A f \in CartFrames : \A x, y \in {-7, 0, 3, 10} :
                LET x1 == f.c * x - f.s * y   y1 == f.s * x + f.c * y       \* x n
                IN f.c * x1 + f.s * y1 = f.n * f.n * x /\ f.c * y1 - f.s * x1 = f.n * f.n * y
UnitOK == \A f \in CartFrames : f.c * f.c + f.s * f.s = f.n * f.n

(***************************************************************************)
(* The world: every feature and model type that carries coordinates        *)
(***************************************************************************)
Ridge(f, pts) == ("ridge coordinates" :> << [i \in 1..Len(pts) |-> XYf(f, pts[i][1], pts[i][2])] >>)
HalfSpace(f, pts) == ("model" :> "half space model") @@ ("min depth" :> 0) @@ ("max depth" :> 120 * Km) @@ ("spreading velocity" :> Dec(3, -2))
                     @@ ("top temperature" :> 273) @@ ("bottom temperature" :> 1600) @@ Ridge(f, pts)
Features(f) ==
  << Area("continental plate", "cont", RectF(f, 0, 0, 500, 500), 0,
          << <<200 * Km>>, <<120 * Km, <<XYf(f, 250, 250), XYf(f, 500, 500)>>>> >>
          \o [i \in 1..45 |-> <<(100 + ((37 * i) % 90)) * Km, <<XYf(f, 20 + ((113 * i) % 460), 20 + ((197 * i) % 470))>>>>],   \* max depth given at points: 45 scattered nodes, values off any plane (the triangulation matters)
          \* linear between the top and the LOCAL bottom of the plate: every interior probe feels the interpolated depth
          <<("model" :> "linear") @@ ("max depth" :> 400 * Km) @@ ("top temperature" :> 300) @@ ("bottom temperature" :> 1500)>>, <<CUniform(<<0>>, "replace")>>, <<>>, <<>>),
     Area("oceanic plate", "ocean", RectF(f, 500, 0, 1000, 500), 0, 150 * Km,
          <<HalfSpace(f, << <<400, -200>>, <<700, 900>> >>)>>, <<CUniformF(<<1, 2>>, <<Dec(25, -2), Dec(75, -2)>>, "replace")>>, <<>>, <<>>),
     Area("mantle layer", "mantle", RectF(f, 0, 0, 1000, 500), 100 * Km, 400 * Km,
          <<TUniform(30, "subtract")>>, <<CUniform(<<0>>, "add")>>, <<>>, <<>>),
     Plume("plume", <<XYf(f, 250, 250), XYf(f, 300, 260)>>, <<50 * Km, 300 * Km>>, <<U(f, 100), U(f, 80)>>, <<Dec(6, -1), Dec(5, -1)>>,
           <<Azimuth(f, 20), Azimuth(f, 70)>>, 10 * Km, 350 * Km, <<TUniform(1800, "replace")>>, <<CUniform(<<3>>, "replace")>>, <<>>, <<>>),
     Line("subducting plate", "slab", <<XYf(f, 700, -100), XYf(f, 650, 200), XYf(f, 700, 600)>>, XYf(f, 1200, 100), 0, 600 * Km,   \* curved trench
          <<Segment(300 * Km, <<100 * Km>>, <<0>>, <<30, 50>>), Segment(100 * Km, <<100 * Km, 60 * Km>>, <<0>>, <<50>>)>>,
          <<   ("model" :> "mass conserving") @@ ("density" :> 3300) @@ ("thermal conductivity" :> Dec(33, -1)) @@ ("adiabatic heating" :> TRUE)
            @@ ("spreading velocity" :> Dec(5, -2)) @@ ("subducting velocity" :> Dec(5, -2)) @@ Ridge(f, << <<-1500, -1500>>, <<-1500, 2500>> >>)
            @@ ("coupling depth" :> 80 * Km) @@ ("taper distance" :> 100 * Km) @@ ("min distance slab top" :> -100 * Km) @@ ("max distance slab top" :> 150 * Km) >>,
          <<CUniform(<<4>>, "replace")>>, <<>>, <<>>),
     Line("fault", "fault", <<XYf(f, 300, -100), XYf(f, 320, 300), XYf(f, 300, 600)>>, XYf(f, 0, 0), 0, 600 * Km,
          <<Segment(200 * Km, <<50 * Km>>, <<0>>, <<70>>)>>, <<TUniform(700, "replace")>>, <<CUniform(<<5>>, "replace")>>, <<>>, <<>>),
     Area("oceanic plate", "plate-model", RectF(f, 0, 500, 1000, 1000), 0, 120 * Km,
          <<   ("model" :> "plate model") @@ ("min depth" :> 0) @@ ("max depth" :> 120 * Km) @@ ("spreading velocity" :> Dec(4, -2))
            @@ ("top temperature" :> 273) @@ ("bottom temperature" :> -1) @@ Ridge(f, << <<-300, 400>>, <<100, 1200>> >>) >>,
          <<CUniform(<<6>>, "replace")>>, <<>>, <<>>) >>

Doc(f) == World(IF f.sph THEN Spherical("begin segment") ELSE Cartesian, Features(f))
          @@ ("cross section" :> <<XYf(f, 0, 250), XYf(f, 1000, 250)>>)

(* probes <<x km, y km, depth km>>, at least 10 km away from every boundary *)
Probes == << <<100, 100, 50>>, <<250, 250, 100>>, <<280, 255, 200>>, <<600, 250, 60>>, <<800, 250, 130>>, <<820, 100, 150>>, <<750, 450, 90>>,
             <<306, 120, 20>>, <<312, 400, 100>>, <<400, 700, 30>>, <<900, 900, 100>>, <<150, 600, 60>>, <<450, 450, 150>>, <<1500, 250, 50>>,
             <<950, 50, 300>>, <<50, 450, 250>>, <<320, 258, 250>>, <<215, 245, 60>>,
             \* in the plume's head (between its min depth, 10 km, and its first cross section, 50 km)
             <<250, 250, 30>>, <<290, 255, 25>>, <<215, 245, 40>>, <<260, 280, 45>>, <<330, 250, 20>> >>
AllProps == <<PT, PC(0), PC(1), PC(2), PC(3), PC(4), PC(5), PC(6), PTag>>

(* base frames *)
Base(sph) == IF sph THEN [sph |-> TRUE, dlon |-> 0] ELSE Identity
Row(f, pr, alias) ==
  LET b == Base(f.sph)  p == XYf(b, pr[1], pr[2])  q == XYf(f, pr[1], pr[2]) IN
  IF f.sph THEN <<R - pr[3] * Km, p[1], p[2], pr[3] * Km, R - pr[3] * Km, Add(q[1], alias), q[2]>>
  ELSE <<p[1], p[2], H - pr[3] * Km, pr[3] * Km, q[1], q[2], H - pr[3] * Km>>

Behaviour(f) ==
  [id |-> <<"motion", f>>, labels |-> <<"motion", IF f.sph THEN "longitude-offset" ELSE "rotation-translation">>,
   steps |-> << [op |-> "create", h |-> 1, wb |-> Doc(Base(f.sph))], [op |-> "create", h |-> 2, wb |-> Doc(f)] >>
             \o [a \in 1..(IF f.sph THEN 3 ELSE 1) |->
                   [op |-> "qtable", h |-> 1, h2 |-> 2, dim |-> 3, sph |-> f.sph, props |-> AllProps, pos2 |-> <<4, 5, 6>>,
                    twinrel |-> Dec(1, -6), twinabs |-> Dec(1, -6),
                    rows |-> [i \in 1..Len(Probes) |-> Row(f, Probes[i], <<0, 360, -360>>[a])]]]]

(***************************************************************************)
(* Trench family: a slab (or fault) on a polyline of lattice points -- any  *)
(* shape: sharp turns, parts parallel to an axis, S and V shapes -- with a   *)
(* temperature that is linear in the distance from the plane, so that a     *)
(* wrong closest point on the trench curve shows as a wrong temperature.    *)
(* Base and moved world are compared on a dense lattice of points around    *)
(* the trench.  Exactly collinear coordinate triples are left out (known     *)
(* finding of C06 / C19).                                                    *)
(***************************************************************************)
CONSTANTS TN, TMax             \* lattice size and most coordinates of a trench
TLattice == {<<i, j>> : i, j \in 0..(TN - 1)}
Cr(a, b, c) == (b[1] - a[1]) * (c[2] - a[2]) - (b[2] - a[2]) * (c[1] - a[1])
TrenchFrames == { [sph |-> FALSE, c |-> 3, s |-> 4, n |-> 5, tx |-> 1000, ty |-> -2000], [sph |-> FALSE, c |-> 0, s |-> 1, n |-> 1, tx |-> 0, ty |-> 0],
                  [sph |-> FALSE, c |-> 5, s |-> -12, n |-> 13, tx |-> 0, ty |-> 3000] }
TU == 200                       \* lattice unit in km
TrenchDoc(f, pl, kind) ==
  World(Cartesian,
        <<Line(kind, "line", [i \in 1..Len(pl) |-> XYf(f, TU * pl[i][1], TU * pl[i][2])], XYf(f, 2000, -900), 0, 800 * Km,
               <<Segment(300 * Km, <<120 * Km>>, <<-60 * Km>>, <<50>>)>>,
               <<IF kind = "fault"
                 THEN ("model" :> "linear") @@ ("min distance fault center" :> 0) @@ ("max distance fault center" :> 200 * Km) @@ ("center temperature" :> 300) @@ ("side temperature" :> 1300)
                 ELSE ("model" :> "linear") @@ ("min distance slab top" :> -100 * Km) @@ ("max distance slab top" :> 200 * Km) @@ ("top temperature" :> 300) @@ ("bottom temperature" :> 1300)>>,
               <<CUniform(<<1>>, "replace")>>, <<>>, <<>>)>>)
TrenchRows(f) == LET ps == SetToSeq({-150 + 23 * i : i \in 0..(TN * 11)} \X {-150 + 29 * j : j \in 0..(TN * 9)} \X {40, 130}) IN
                 [k \in 1..Len(ps) |-> LET p == XYf(Identity, ps[k][1], ps[k][2])  q == XYf(f, ps[k][1], ps[k][2]) IN
                                        <<p[1], p[2], H - ps[k][3] * Km, ps[k][3] * Km, q[1], q[2], H - ps[k][3] * Km>>]
TrenchBehaviour(pl, f, kind) ==
  [id |-> <<"motion-trench", pl, f, kind>>, labels |-> <<"motion", "trench-shapes", kind>>,
   steps |-> << [op |-> "create", h |-> 1, wb |-> TrenchDoc(Identity, pl, kind)], [op |-> "create", h |-> 2, wb |-> TrenchDoc(f, pl, kind)],
                [op |-> "qtable", h |-> 1, h2 |-> 2, dim |-> 3, props |-> <<PT, PC(1), PTag>>, pos2 |-> <<4, 5, 6>>,
                 twinrel |-> Dec(1, -6), twinabs |-> Dec(1, -3), jitter |-> Dec(1, -7), rows |-> TrenchRows(f)] >>]

(***************************************************************************)
(* Ridge family: an oceanic plate whose cooling model measures the distance *)
(* to a mid-ocean ridge made of several pieces joined by transform faults   *)
(* (oblique to both axes in every frame but the base one), or bent, with    *)
(* the spreading velocity given per ridge point.  Which ridge piece a point *)
(* belongs to, its distance and hence its age must move with the world.     *)
(***************************************************************************)
RidgeSets == << << << <<100, -400>>, <<300, 300>> >>, << <<600, 450>>, <<700, 1400>> >> >>,
                << << <<0, -300>>, <<0, 200>> >>, << <<250, 300>>, <<250, 700>> >>, << <<-100, 900>>, <<-100, 1500>> >> >>,
                << << <<100, -400>>, <<300, 300>>, <<200, 1400>> >> >> >>
RidgeVels(r) == << <<0, <<FlattenSeq([i \in 1..Len(RidgeSets[r]) |-> [j \in 1..Len(RidgeSets[r][i]) |-> Dec(2 + ((i + j) % 3), -2)]])>>>> >>
RidgeDoc(f, r, model) ==
  World(IF f.sph THEN Spherical("begin segment") ELSE Cartesian,
        <<Area("oceanic plate", "o", RectF(f, -500, -500, 1300, 1500), 0, 120 * Km,
               <<   ("model" :> model) @@ ("min depth" :> 0) @@ ("max depth" :> 120 * Km) @@ ("top temperature" :> 273) @@ ("bottom temperature" :> 1600)
                 @@ ("spreading velocity" :> RidgeVels(r))
                 @@ ("ridge coordinates" :> [i \in 1..Len(RidgeSets[r]) |-> [j \in 1..Len(RidgeSets[r][i]) |-> XYf(f, RidgeSets[r][i][j][1], RidgeSets[r][i][j][2])]]) >>,
               <<CUniform(<<1>>, "replace")>>, <<>>, <<>>)>>)
RidgeRows(f) == LET ps == SetToSeq({-450 + 67 * i : i \in 0..25} \X {-450 + 71 * j : j \in 0..26} \X {20, 70}) IN
                [k \in 1..Len(ps) |-> LET p == XYf(Base(f.sph), ps[k][1], ps[k][2])  q == XYf(f, ps[k][1], ps[k][2]) IN
                                       IF f.sph THEN <<R - ps[k][3] * Km, p[1], p[2], ps[k][3] * Km, R - ps[k][3] * Km, q[1], q[2]>>
                                       ELSE <<p[1], p[2], H - ps[k][3] * Km, ps[k][3] * Km, q[1], q[2], H - ps[k][3] * Km>>]
RidgeBehaviour(r, f, model) ==
  [id |-> <<"motion-ridge", r, f, model>>, labels |-> <<"motion", "ridge-shapes", model>>,
   steps |-> << [op |-> "create", h |-> 1, wb |-> RidgeDoc(Base(f.sph), r, model)], [op |-> "create", h |-> 2, wb |-> RidgeDoc(f, r, model)],
                [op |-> "qtable", h |-> 1, h2 |-> 2, dim |-> 3, sph |-> f.sph, props |-> <<PT, PC(1), PTag>>, pos2 |-> <<4, 5, 6>>,
                 twinrel |-> Dec(1, -6), twinabs |-> Dec(1, -3), jitter |-> Dec(1, -7), rows |-> RidgeRows(f)] >>]
RidgeFrames == TrenchFrames \cup {[sph |-> TRUE, dlon |-> 172], [sph |-> TRUE, dlon |-> -184]}       \* on the sphere the ridge is moved across the +-180 meridian
EmitRidges == \A r \in 1..Len(RidgeSets), f \in RidgeFrames, m \in {"half space model", "plate model"} :
                 PrintT(<<"B", ToJson(RidgeBehaviour(r, f, m))>>)

(* a trench is emitted by its own Finish step, so that a simulation emits the polylines it walked and not every
   candidate extension *)
VARIABLES frame, pl, done
Init == /\ done = FALSE
        /\ (frame \in CartFrames \cup SphFrames /\ pl = <<>>) \/ (frame \in TrenchFrames /\ pl \in {<<v>> : v \in TLattice})
Extend == /\ pl # <<>> /\ Len(pl) < TMax /\ ~done /\ UNCHANGED <<frame, done>>
          /\ \E v \in TLattice : /\ v # pl[Len(pl)]
                                  /\ (Len(pl) >= 2 => Cr(pl[Len(pl) - 1], pl[Len(pl)], v) # 0)      \* no exactly collinear triple
                                  /\ pl' = Append(pl, v)
Finish == Len(pl) >= 3 /\ ~done /\ done' = TRUE /\ UNCHANGED <<frame, pl>>
Next == Extend \/ Finish
SpecOK == InverseOK /\ UnitOK
Emit == IF pl = <<>> THEN PrintT(<<"B", ToJson(Behaviour(frame))>>)
        ELSE ~done \/ (PrintT(<<"B", ToJson(TrenchBehaviour(pl, frame, "subducting plate"))>>)
                        /\ PrintT(<<"B", ToJson(TrenchBehaviour(pl, frame, "fault"))>>))
(* simulation of long trenches on a larger lattice starts from trench states only *)
TrenchInit == done = FALSE /\ frame \in TrenchFrames /\ pl \in {<<v>> : v \in TLattice}
=============================================================================
