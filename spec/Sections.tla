------------------------------ MODULE Sections ------------------------------
(***************************************************************************)
(* C10 -- segment models are inherited (segment <- section <- feature) and *)
(* sections interpolate only between neighbouring trench coordinates.      *)
(*                                                                         *)
(* A line feature with three trench coordinates.  For each coordinate k    *)
(* there is either no section entry, or an entry that, per kind            *)
(* (temperature, composition), inherits, declares the models at section    *)
(* level, or declares them inside its segments.                            *)
(*                                                                         *)
(* Prop: Resolved(k, kind) = the segment's own models, else the section's, *)
(* else the feature's.  Writing the resolved models explicitly into every  *)
(* segment (Explicit) or adding entries that repeat the default segments   *)
(* for the coordinates without one (Repeat) builds an indistinguishable    *)
(* world.  At a foot with fraction f between coordinates k and k+1 the     *)
(* value is (1 - f) R_k + f R_{k+1}; hence dropping the entry of           *)
(* coordinate k changes nothing outside (k-1, k+1).                        *)
(***************************************************************************)
EXTENDS Wb, Json, SequencesExt

CONSTANTS Kinds           \* {"subducting plate", "fault"}

(* three trench coordinates, deliberately NOT exactly collinear (the middle one 5 km off the line): exactly collinear
   coordinates hit the degenerate control-point orientation recorded as a C06 / C19 finding *)
Trench3 == <<<<0, 0>>, <<5 * Km, 300 * Km>>, <<0, 600 * Km>>>>

Levels == {"inherit", "section", "segment"}
SecOpt == {[present |-> FALSE, t |-> "inherit", c |-> "inherit"]} \cup [present : {TRUE}, t : Levels, c : Levels]
(* defown: the feature's default segments declare models of their own (so the feature-level models are reached only through a
   section entry whose segments inherit): a coordinate without an entry then uses the default segments' models, an entry whose
   kind is "inherit" still inherits the FEATURE's *)
Config == [kind : Kinds, sec : [0..2 -> SecOpt], defown : BOOLEAN]

(* values: temperatures in K; compositions in sixteenths *)
FT == 100   ST(k) == 200 + 10 * k   GT(k) == 300 + 10 * k
FC == 2     SC(k) == 4 + k          GC(k) == 8 + k
DT == 150   DC == 3                       \* the default segments' own models
ResT(c, k) == CASE c.sec[k].t = "segment" -> GT(k) [] c.sec[k].t = "section" -> ST(k) [] ~c.sec[k].present /\ c.defown -> DT [] OTHER -> FT
ResC(c, k) == CASE c.sec[k].c = "segment" -> GC(k) [] c.sec[k].c = "section" -> SC(k) [] ~c.sec[k].present /\ c.defown -> DC [] OTHER -> FC

(* every list ends with a model that hands its input on unchanged (adds zero / adds to another label): a section's value is the
   result of ITS OWN chain, so the running value of one section's chain must never leak into the other's *)
TM(v) == <<TUniform(v, "replace"), TUniform(0, "add")>>
CM(v16) == <<CUniformF(<<1>>, <<Rat(v16, 16)>>, "replace"), CUniformF(<<2>>, <<Rat(1, 4)>>, "add")>>
BaseSeg == Segment(400 * Km, <<100 * Km>>, <<0>>, <<45>>)
SegWith(t, cc) == BaseSeg @@ (IF t = <<>> THEN <<>> ELSE ("temperature models" :> t)) @@ (IF cc = <<>> THEN <<>> ELSE ("composition models" :> cc))

(* the section entry of coordinate k as the configuration writes it *)
Entry(c, k) ==
  LET o == c.sec[k] IN
     ("coordinate" :> k)
  @@ ("segments" :> <<SegWith(IF o.t = "segment" THEN TM(GT(k)) ELSE <<>>, IF o.c = "segment" THEN CM(GC(k)) ELSE <<>>)>>)
  @@ (IF o.t = "section" THEN ("temperature models" :> TM(ST(k))) ELSE <<>>)
  @@ (IF o.c = "section" THEN ("composition models" :> CM(SC(k))) ELSE <<>>)
(* every model written into the segment of every coordinate *)
ExplicitEntry(c, k) == ("coordinate" :> k) @@ ("segments" :> <<SegWith(TM(ResT(c, k)), CM(ResC(c, k)))>>)
DefSeg(c) == IF c.defown THEN SegWith(TM(DT), CM(DC)) ELSE BaseSeg
(* an entry that just repeats the default segment list *)
RepeatEntry(k) == ("coordinate" :> k) @@ ("segments" :> <<BaseSeg>>)
RepeatEntryC(c, k) == ("coordinate" :> k) @@ ("segments" :> <<DefSeg(c)>>)

Present(c) == {k \in 0..2 : c.sec[k].present}
Doc(c, layout) ==
  LET entries == CASE layout = "asis" -> [i \in 1..Cardinality(Present(c)) |-> Entry(c, SetToSeq(Present(c))[i])]
                   [] layout = "explicit" -> [i \in 1..3 |-> ExplicitEntry(c, i - 1)]
                   [] layout = "repeat" -> [i \in 1..3 |-> IF c.sec[i - 1].present THEN Entry(c, i - 1) ELSE RepeatEntryC(c, i - 1)]
      feat == Line(c.kind, "line", Trench3, <<500 * Km, 300 * Km>>, 0, 1000 * Km,
                   <<DefSeg(c)>>, TM(FT), CM(FC), <<>>, <<>>)
  IN World(Cartesian, <<feat @@ (IF entries = <<>> THEN <<>> ELSE ("sections" :> entries))>>)

(* probes: y in quarters of a coordinate interval; x = 100 km on the dip side, 120 km deep: inside slab and fault *)
HM == 2000 * Km
YQ == 0..8                                   \* y = 75 km * q ; coordinate k at q = 4 k
Row(q) == <<105 * Km, IF q = 0 THEN 1 * Km ELSE IF q = 8 THEN 599 * Km ELSE 75 * q * Km, HM - 120 * Km, 120 * Km>>
(* quarter q lies between coordinates Lo(q) and Lo(q) + 1; at q = 4 it is exactly coordinate 1 *)
Lo(q) == IF q = 8 THEN 1 ELSE q \div 4
EndsT(c, q) == <<ResT(c, Lo(q)), ResT(c, Lo(q) + 1)>>
EndsC(c, q) == <<Rat(ResC(c, Lo(q)), 16), Rat(ResC(c, Lo(q) + 1), 16)>>

Behaviour(c) ==
  [id |-> <<"sections", c>>, labels |-> <<"sections", c.kind, IF c.defown THEN "default-segments-with-own-models" ELSE "default-segments-inherit">>,
   steps |-> << [op |-> "create", h |-> 1, wb |-> Doc(c, "asis")],
                [op |-> "create", h |-> 2, wb |-> Doc(c, "explicit")],
                [op |-> "create", h |-> 3, wb |-> Doc(c, "repeat")],
                \* inherited values and interpolation between neighbours
                [op |-> "qtable", h |-> 1, dim |-> 3, props |-> <<PT, PC(1), PTag>>,
                 checks |-> <<[k |-> "between", at |-> 0, col |-> 4, col2 |-> 5], [k |-> "between", at |-> 1, col |-> 6, col2 |-> 7],
                              \* ... with one weight for all quantities of a point (the section fraction)
                              [k |-> "sameweight", at |-> 0, col |-> 4, col2 |-> 5, at2 |-> 1, col3 |-> 6, col4 |-> 7]>>,
                 rows |-> [i \in 1..9 |-> Row(i - 1) \o EndsT(c, i - 1) \o EndsC(c, i - 1)]],
                \* at a coordinate the section's own value is returned
                [op |-> "qtable", h |-> 1, dim |-> 3, props |-> <<PT, PC(1)>>,
                 checks |-> <<[k |-> "tol", at |-> 0, col |-> 4, rel |-> Dec(1, -6), abs |-> 0], [k |-> "tol", at |-> 1, col |-> 5, rel |-> Dec(1, -6), abs |-> 0]>>,
                 rows |-> <<Row(4) \o <<ResT(c, 1), Rat(ResC(c, 1), 16)>>>>],
                \* re-layouts are indistinguishable
                [op |-> "qtable", h |-> 1, h2 |-> 2, dim |-> 3, props |-> <<PT, PC(1), PTag, PV>>, rows |-> [i \in 1..9 |-> Row(i - 1)]],
                [op |-> "qtable", h |-> 1, h2 |-> 3, dim |-> 3, props |-> <<PT, PC(1), PTag, PV>>, rows |-> [i \in 1..9 |-> Row(i - 1)]] >>
             \* dropping the entry of one coordinate changes nothing outside that coordinate's two neighbours
             \o FlattenSeq([i \in 1..Cardinality(Present(c)) |->
                   LET k == SetToSeq(Present(c))[i]
                       \* strictly beyond the neighbours (at a neighbouring coordinate itself the weight of the changed section is zero only up to
                       \* rounding); the end probes (q = 0, 8) sit 1 km inside the trench: strictly between coordinates 0,1 and 1,2
                       far == {q \in 1..7 : q < 4 * (k - 1) \/ q > 4 * (k + 1)} \cup (IF k = 2 THEN {0} ELSE {}) \cup (IF k = 0 THEN {8} ELSE {})
                   IN IF far = {} THEN <<>>
                      ELSE << [op |-> "create", h |-> 10 + k, wb |-> Doc([c EXCEPT !.sec[k] = [present |-> FALSE, t |-> "inherit", c |-> "inherit"]], "asis")],
                              [op |-> "qtable", h |-> 1, h2 |-> 10 + k, dim |-> 3, props |-> <<PT, PC(1), PTag>>,
                               rows |-> [j \in 1..Cardinality(far) |-> Row(SetToSeq(far)[j])]] >>])]

(***************************************************************************)
(* Geometry family: the sections also override the segment table.  A        *)
(* vertical (dip 90) line feature with two segments; segment 1 is painted   *)
(* 500 K, segment 2 900 K.  Per coordinate: lengths <<L1, L2>> (L1 may be   *)
(* zero: a placeholder segment) and thickness T, or no entry (the default   *)
(* 100 / 100 / 100 km).  With dip 90 the distance along the surface is the  *)
(* depth, so which segment a point is in, and where the feature ends, show  *)
(* the interpolated lengths; the offset from the plane shows the thickness. *)
(* Prop: between coordinates k and k+1 every interpolated quantity lies     *)
(* between the two sections' values; at (and within 1 km of) a coordinate   *)
(* it is that section's own value (margins of 3 km absorb the unknown       *)
(* interpolation weight).                                                   *)
(***************************************************************************)
GeoOpt == {[present |-> FALSE, l1 |-> 100, l2 |-> 100, t |-> 100]} \cup [present : {TRUE}, l1 : {0, 50, 100}, l2 : {50, 100}, t : {50, 100}]
GeoConfig == [kind : Kinds, g : [0..2 -> GeoOpt]]
GeoSeg(len, t, temp) == Segment(len * Km, <<t * Km>>, <<0>>, <<90>>) @@ ("temperature models" :> TM(temp))
GeoEntry(c, k) == ("coordinate" :> k) @@ ("segments" :> <<GeoSeg(c.g[k].l1, c.g[k].t, 500), GeoSeg(c.g[k].l2, c.g[k].t, 900)>>)
GeoPresent(c) == {k \in 0..2 : c.g[k].present}
GeoDoc(c) ==
  LET entries == [i \in 1..Cardinality(GeoPresent(c)) |-> GeoEntry(c, SetToSeq(GeoPresent(c))[i])]
      feat == Line(c.kind, "line", Trench3, <<500 * Km, 300 * Km>>, 0, 1000 * Km,
                   <<GeoSeg(100, 100, 500), GeoSeg(100, 100, 900)>>, <<>>, <<>>, <<>>, <<>>)
  IN World(Cartesian, <<feat @@ (IF entries = <<>> THEN <<>> ELSE ("sections" :> entries))>>)
      @@ ("thermal expansion coefficient" :> 0) @@ ("potential mantle temperature" :> 1600)

Lo2(a, b) == IF a < b THEN a ELSE b
Hi2(a, b) == IF a > b THEN a ELSE b
(* positions along the trench: <<y km, k, k2>>: the point lies between coordinates k and k2 (k = k2: at / within 1 km of coordinate k) *)
GeoYs == << <<1, 0, 0>>, <<150, 0, 1>>, <<299, 1, 1>>, <<300, 1, 1>>, <<301, 1, 1>>, <<450, 1, 2>>, <<599, 2, 2>> >>
(* expected temperature at depth z km for a point between k and k2: 500 in segment 1, 900 in segment 2, 1600 outside, -1 = not asserted *)
GeoT(c, k, k2, z) ==
  LET l1lo == Lo2(c.g[k].l1, c.g[k2].l1)  l1hi == Hi2(c.g[k].l1, c.g[k2].l1)
      tlo == Lo2(c.g[k].l1 + c.g[k].l2, c.g[k2].l1 + c.g[k2].l2)  thi == Hi2(c.g[k].l1 + c.g[k].l2, c.g[k2].l1 + c.g[k2].l2)
  IN IF z + 3 <= l1lo THEN 500
     ELSE IF z - 3 >= l1hi /\ z + 3 <= tlo THEN 900
     ELSE IF z - 3 >= thi THEN 1600
     ELSE -1
(* offsets from the plane (km) and whether a point at that offset (and 20 km depth, inside segment 1 or 2) is in the feature *)
GeoIn(c, k, k2, d) ==
  LET lo == Lo2(c.g[k].t, c.g[k2].t)  hi == Hi2(c.g[k].t, c.g[k2].t)
      half == c.kind = "fault"
  \* margins of 8 km: the offsets are measured from x = 0 while the (slightly bowed) trench lies at x = 0..5 km
  IN IF (IF half THEN 2 * d + 16 <= lo ELSE d + 8 <= lo) THEN 1
     ELSE IF (IF half THEN 2 * d - 16 >= hi ELSE d - 8 >= hi) THEN 0 ELSE -1
GeoRows(c) ==
  LET ps == SetToSeq((1..Len(GeoYs)) \X {2, 20, 45, 60, 95, 110, 145, 160, 195, 210})
      row(i, z) == LET y == GeoYs[i] t == GeoT(c, y[2], y[3], z) IN
                   <<-10 * Km, y[1] * Km, HM - z * Km, z * Km, IF t < 0 THEN [null |-> TRUE] ELSE t>>
  IN [j \in 1..Len(ps) |-> row(ps[j][1], ps[j][2])]
GeoThickRows(c) ==
  LET ps == SetToSeq((1..Len(GeoYs)) \X {10, 30, 60, 110})
      (* probes at 40 km depth: inside the feature's length unless both neighbouring tables are shorter *)
      row(i, d) == LET y == GeoYs[i] m == GeoIn(c, y[2], y[3], d)
                       deepenough == Lo2(c.g[y[2]].l1 + c.g[y[2]].l2, c.g[y[3]].l1 + c.g[y[3]].l2) >= 50
                   IN <<(0 - d) * Km, y[1] * Km, HM - 40 * Km, 40 * Km, IF m < 0 \/ ~deepenough THEN [null |-> TRUE] ELSE m>>
  IN [j \in 1..Len(ps) |-> row(ps[j][1], ps[j][2])]
GeoBehaviour(c) ==
  [id |-> <<"section-geometry", c>>, labels |-> <<"sections", "geometry", c.kind>>,
   steps |-> << [op |-> "create", h |-> 1, wb |-> GeoDoc(c)],
                [op |-> "qtable", h |-> 1, dim |-> 3, props |-> <<PT>>, checks |-> <<[k |-> "eq", at |-> 0, col |-> 4]>>, rows |-> GeoRows(c)],
                [op |-> "qtable", h |-> 1, dim |-> 3, props |-> <<PTag>>,
                 checks |-> <<[k |-> "tagname", at |-> 0, col |-> 4, names |-> <<FALSE, c.kind>>]>>, rows |-> GeoThickRows(c)] >>]

(***************************************************************************)
(* Grains and velocity are inherited by the same rule.  One coordinate k   *)
(* has an entry that declares a grains or a velocity model at section or   *)
(* at segment level; the feature itself has such a model or not.  Prop:    *)
(* writing the resolved model into every segment of every coordinate, or   *)
(* adding entries that only repeat the default segments, builds an         *)
(* indistinguishable world (compared bitwise along the trench).            *)
(***************************************************************************)
GVConfig == [kind : Kinds, k : 0..2, lvl : {"section", "segment"}, what : {"grains", "velocity"}, feat : BOOLEAN]
RotZ == << <<0, -1, 0>>, <<1, 0, 0>>, <<0, 0, 1>> >>
RotX == << <<1, 0, 0>>, <<0, 0, -1>>, <<0, 1, 0>> >>
GVModel(c, own) == IF c.what = "grains" THEN <<GUniform(<<0>>, <<IF own THEN RotX ELSE RotZ>>, <<IF own THEN Dec(25, -2) ELSE Dec(5, -1)>>)>>
                   ELSE <<VUniform(IF own THEN <<7, 8, 9>> ELSE <<1, 2, 3>>)>>
GVKey(c) == IF c.what = "grains" THEN "grains models" ELSE "velocity models"
GVSeg(ms, c) == BaseSeg @@ (IF ms = <<>> THEN <<>> ELSE (GVKey(c) :> ms))
GVResolved(c, j) == IF j = c.k THEN GVModel(c, TRUE) ELSE IF c.feat THEN GVModel(c, FALSE) ELSE <<>>
GVEntry(c) == ("coordinate" :> c.k) @@ ("segments" :> <<GVSeg(IF c.lvl = "segment" THEN GVModel(c, TRUE) ELSE <<>>, c)>>)
              @@ (IF c.lvl = "section" THEN (GVKey(c) :> GVModel(c, TRUE)) ELSE <<>>)
GVDoc(c, layout) ==
  LET entries == CASE layout = "asis" -> <<GVEntry(c)>>
                   [] layout = "explicit" -> [i \in 1..3 |-> ("coordinate" :> (i - 1)) @@ ("segments" :> <<GVSeg(GVResolved(c, i - 1), c)>>)]
                   [] layout = "repeat" -> [i \in 1..3 |-> IF i - 1 = c.k THEN GVEntry(c) ELSE RepeatEntry(i - 1)]
      feat == Line(c.kind, "line", Trench3, <<500 * Km, 300 * Km>>, 0, 1000 * Km, <<BaseSeg>>, TM(FT), CM(FC),
                   IF c.feat /\ c.what = "grains" THEN GVModel(c, FALSE) ELSE <<>>, IF c.feat /\ c.what = "velocity" THEN GVModel(c, FALSE) ELSE <<>>)
  IN World(Cartesian, <<feat @@ ("sections" :> entries)>>)
GVBehaviour(c) ==
  [id |-> <<"sections-gv", c>>, labels |-> <<"sections", c.what, c.kind>>,
   steps |-> << [op |-> "create", h |-> 1, wb |-> GVDoc(c, "asis")], [op |-> "create", h |-> 2, wb |-> GVDoc(c, "explicit")],
                [op |-> "create", h |-> 3, wb |-> GVDoc(c, "repeat")],
                [op |-> "qtable", h |-> 1, h2 |-> 2, dim |-> 3, props |-> <<PG(0, 2), PV, PT, PTag>>, rows |-> [i \in 1..9 |-> Row(i - 1)]],
                [op |-> "qtable", h |-> 1, h2 |-> 3, dim |-> 3, props |-> <<PG(0, 2), PV, PT, PTag>>, rows |-> [i \in 1..9 |-> Row(i - 1)]] >>
             \* the model declared for coordinate k is really used there (so the three worlds do not agree for a trivial reason):
             \* at / within 1 km of coordinate k the own grain size or velocity comes back to within 5 %
             \o << [op |-> "qtable", h |-> 1, dim |-> 3, props |-> <<IF c.what = "grains" THEN PG(0, 2) ELSE PV>>,
                    checks |-> <<[k |-> "tol", at |-> 0, col |-> 4, rel |-> Dec(5, -2), abs |-> 0]>>,
                    rows |-> << Row(4 * c.k) \o <<IF c.what = "grains" THEN Dec(25, -2) ELSE 7>> >>] >>]

VARIABLES cfg
Init == cfg \in Config \cup GeoConfig \cup GVConfig
Next == UNCHANGED cfg
(* the oracle's own locality: the resolved values of the other coordinates do not depend on the entry of coordinate k *)
IsGeo == "g" \in DOMAIN cfg
IsGV == "what" \in DOMAIN cfg
LocalityOK == IsGeo \/ IsGV \/ \A k \in 0..2 : \A j \in (0..2) \ {k} :
                 LET d == [cfg EXCEPT !.sec[k] = [present |-> FALSE, t |-> "inherit", c |-> "inherit"]]
                 IN ResT(d, j) = ResT(cfg, j) /\ ResC(d, j) = ResC(cfg, j)
Emit == PrintT(<<"B", ToJson(IF IsGeo THEN GeoBehaviour(cfg) ELSE IF IsGV THEN GVBehaviour(cfg) ELSE Behaviour(cfg))>>)
=============================================================================
