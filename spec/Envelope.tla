------------------------------ MODULE Envelope ------------------------------
(***************************************************************************)
(* C20 -- cooling models stay inside their physical envelope.              *)
(*                                                                         *)
(* Prop (as predicates over probe lines; the numeric comparison is the     *)
(* harness'):                                                              *)
(*   oceanic half-space / plate / constant-age models with top <= bottom   *)
(*   temperature: every value lies between the two; it does not decrease   *)
(*   along a vertical probe (depth increasing) and does not increase along *)
(*   a horizontal probe away from the ridge (age increasing); the top       *)
(*   temperature is attained at the model's top, and for the plate models   *)
(*   the bottom temperature at the model's bottom.                          *)
(*   mass conserving and plate-model slab temperatures: between the surface *)
(*   temperature and the larger of the ambient (here: background) value and *)
(*   the adiabat at that depth.                                             *)
(* TLC enumerates the cases (model, ridge geometry, spreading velocity or   *)
(* age, constant or laterally varying plate thickness; slab shape, both     *)
(* reference models, subduction velocities) and lays out the probe lines.   *)
(***************************************************************************)
EXTENDS Wb, Json, SequencesExt

V(n) == [op |-> "var", name |-> n]
Tp == 1600   Alpha == Dec(35, -6)   Cp == 1250   G == 10
Adiabat(d) == Mul(Tp, Exp(Mul(Div(Mul(Alpha, G), Cp), d)))
HM == 2000 * Km
WorldOf(feats) == World(Cartesian, feats) @@ ("gravity model" :> (("model" :> "uniform") @@ ("magnitude" :> G))) @@ ("surface temperature" :> 273)

(*************************** oceanic plates ***********************************)
Ridges == { << << <<100, -2000>>, <<100, 3000>> >> >>,                                                   \* one straight ridge
            << << <<100, -2000>>, <<100, 500>> >>, << <<300, 500>>, <<300, 3000>> >> >>,                    \* two segments, transform offset
            << << <<100, -2000>>, <<400, 3000>> >> >> }                                                    \* oblique
OModels == {"half space model", "plate model", "plate model constant age"}
(* tb: the bottom temperature, 1600 K or -1 (= the adiabat at that depth); under: a hot (1900 K) mantle layer is listed before the
   plate and reaches through its depth range -- a model that REPLACES the temperature does not care what was painted before *)
OCase == {c \in [model : OModels, ridge : Ridges, vel : {1, 5, 10}, varying : BOOLEAN, tb : {1600, -1}, under : BOOLEAN] :
            (c.under \/ c.tb = -1) => (~c.varying /\ c.vel = 5)}

P(x, y) == <<x * Km, y * Km>>
ODoc(c) ==
  LET L == IF c.varying THEN << <<70 * Km, <<P(100, 100), P(100, 1100)>>>>, <<130 * Km, <<P(1100, 100), P(1100, 1100)>>>> >> ELSE 120 * Km
      m ==    ("model" :> c.model) @@ ("min depth" :> 0) @@ ("max depth" :> L) @@ ("top temperature" :> 273) @@ ("bottom temperature" :> c.tb)
           @@ (IF c.model = "plate model constant age" THEN ("plate age" :> Mul(c.vel, 10000000))
               ELSE ("spreading velocity" :> Dec(c.vel, -2))
                    @@ ("ridge coordinates" :> [i \in 1..Len(c.ridge) |-> [j \in 1..Len(c.ridge[i]) |-> P(c.ridge[i][j][1], c.ridge[i][j][2])]]))
  IN WorldOf((IF c.under THEN <<Area("mantle layer", "hot", Rect(-500 * Km, -500 * Km, 2000 * Km, 2000 * Km), 0, 250 * Km, <<TUniform(1900, "replace")>>, <<>>, <<>>, <<>>)>> ELSE <<>>)
             \o <<Area("oceanic plate", "f", Rect(100 * Km, 100 * Km, 1100 * Km, 1100 * Km), 0, L, <<m>>, <<>>, <<>>, <<>>)>>)

(* local plate thickness at x km (km): 70 + 60 (x - 100) / 1000 when varying, else 120 *)
Thick10(c, x) == IF c.varying THEN 700 + (6 * (x - 100)) \div 10 ELSE 1200        \* in units of 100 m
XS == {150, 350, 450, 600, 750, 900, 1050}
(* positions on (age 0) or within 5 km of a ridge, where the truncated Fourier series of the plate models is least accurate *)
Young(c) == IF Len(c.ridge) = 2 THEN {<<300, 700>>, <<305, 700>>, <<100, 300>>} ELSE {<<100, 300>>, <<105, 700>>}
YS == {300, 700}
(* vertical probes: 13 depths from the top to the local bottom; group = the probe's index *)
VRowsAt(c, S) == LET ps == SetToSeq(S) IN
            FlattenSeq([k \in 1..Len(ps) |-> [i \in 1..13 |->
               <<ps[k][1] * Km, ps[k][2] * Km, HM - (Thick10(c, ps[k][1]) * 100 * (i - 1)) \div 12, (Thick10(c, ps[k][1]) * 100 * (i - 1)) \div 12, k>>]])
(* horizontal probes away from the ridge at fixed depth: group = (y, depth) index *)
HRows(c) == LET ps == SetToSeq(YS \X {5, 30, 60}) IN
            FlattenSeq([k \in 1..Len(ps) |-> [i \in 1..7 |->
               <<(450 + 90 * (i - 1)) * Km, ps[k][1] * Km, HM - ps[k][2] * Km, ps[k][2] * Km, k>>]])
Hot(c) == IF c.tb = -1 THEN Adiabat(V("$3")) ELSE 1600          \* the hot end member at the row's depth (cell 3)
OBehaviour(c) ==
  [id |-> <<"envelope-ocean", c>>, labels |-> <<"envelope", c.model, IF c.varying THEN "varying-thickness" ELSE "constant-thickness",
                                             IF c.tb = -1 THEN "adiabatic-bottom" ELSE "given-bottom", IF c.under THEN "painted-underneath" ELSE "on-background">>,
   steps |-> << [op |-> "create", h |-> 1, wb |-> ODoc(c)],
                [op |-> "qtable", h |-> 1, dim |-> 3, props |-> <<PT>>, rowlet |-> << <<"lo", 273>>, <<"hi", Hot(c)>> >>,
                 checks |-> <<[k |-> "between", at |-> 0, col |-> 5, col2 |-> 6, slack |-> Dec(1, -9)], [k |-> "monotone", at |-> 0, col |-> 4, dir |-> "up", slack |-> Dec(1, -9)]>>,
                 rows |-> VRowsAt(c, XS \X YS)],
                \* the same along vertical probes on and next to the ridge (zero and very small ages)
                [op |-> "qtable", h |-> 1, dim |-> 3, props |-> <<PT>>, rowlet |-> << <<"lo", 273>>, <<"hi", Hot(c)>> >>,
                 checks |-> <<[k |-> "between", at |-> 0, col |-> 5, col2 |-> 6, slack |-> Dec(1, -9)], [k |-> "monotone", at |-> 0, col |-> 4, dir |-> "up", slack |-> Dec(1, -9)]>>,
                 rows |-> VRowsAt(c, Young(c))] >>
             \o (IF c.model = "plate model constant age" THEN <<>> ELSE
                 <<[op |-> "qtable", h |-> 1, dim |-> 3, props |-> <<PT>>, rowlet |-> << <<"lo", 273>>, <<"hi", Hot(c)>> >>,
                    checks |-> <<[k |-> "between", at |-> 0, col |-> 5, col2 |-> 6, slack |-> Dec(1, -9)], [k |-> "monotone", at |-> 0, col |-> 4, dir |-> "down", slack |-> Dec(1, -9)]>>,
                    rows |-> HRows(c)]>>)
             \* boundary values: top temperature at the top; bottom temperature at the local bottom of the plate models
             \o <<[op |-> "qtable", h |-> 1, dim |-> 3, props |-> <<PT>>, checks |-> <<[k |-> "tol", at |-> 0, col |-> 4, rel |-> Dec(1, -6), abs |-> Dec(1, -6)]>>,
                   rows |-> [i \in 1..3 |-> LET x == <<300, 600, 900>>[i] IN <<x * Km, 500 * Km, HM, 0, 273>>]
                            \* (with a laterally varying thickness the series still uses one plate thickness: only the envelope is asserted there)
                            \o (IF c.model = "half space model" \/ c.varying \/ c.tb = -1 THEN <<>>
                                ELSE [i \in 1..3 |-> LET x == <<300, 600, 900>>[i] IN <<x * Km, 500 * Km, HM - Thick10(c, x) * 100, Thick10(c, x) * 100, 1600>>])]>>]

(*************************** oceanic plates on the sphere *********************)
(* An oblique ridge next to the +-180 meridian, the plate on the same or on the other side of it (so the nearest copy
   of the ridge is the one shifted by 360 degrees), the spreading velocity given per ridge point and different at the
   two ends.  The age of a point is its distance to the ridge over the velocity interpolated along the ridge: it is
   positive off the ridge whatever the side, so the same envelope holds -- between top and bottom temperature,
   not decreasing with depth, the top temperature attained at depth 0. *)
RE == 6371000
SphWorldOf(feats) == World(Spherical("begin segment"), feats) @@ ("gravity model" :> (("model" :> "uniform") @@ ("magnitude" :> G))) @@ ("surface temperature" :> 273)
OSphCase == [model : {"half space model", "plate model"}, grad : {"up", "down", "flat"}, ridge : {"east", "west"}, plate : {"same", "across"}]
(* ridge "east": at longitudes 165..175; "west": the mirror image at -165..-175 *)
SLon(c, lon) == IF c.ridge = "east" THEN lon ELSE -lon
OSphRidge(c) == << << <<SLon(c, 165), -10>>, <<SLon(c, 175), 10>> >> >>
OSphVel(c) == CASE c.grad = "up" -> <<Dec(2, -2), Dec(4, -2)>> [] c.grad = "down" -> <<Dec(4, -2), Dec(2, -2)>> [] OTHER -> <<Dec(3, -2), Dec(3, -2)>>
(* plate "across": longitudes 181..199 written in (-180, 180], i.e. -179..-161 for the eastern ridge; "same": 140..160 *)
PlateLons(c) == IF c.plate = "across" THEN <<SLon(c, -179), SLon(c, -161)>> ELSE <<SLon(c, 140), SLon(c, 160)>>
OSphDoc(c) ==
  LET l == PlateLons(c)
      lo == IF l[1] < l[2] THEN l[1] ELSE l[2]   hi == IF l[1] < l[2] THEN l[2] ELSE l[1]
      m ==    ("model" :> c.model) @@ ("min depth" :> 0) @@ ("max depth" :> 120 * Km) @@ ("top temperature" :> 273) @@ ("bottom temperature" :> 1600)
           @@ ("spreading velocity" :> << <<0, <<OSphVel(c)>>>> >>) @@ ("ridge coordinates" :> OSphRidge(c))
  IN SphWorldOf(<<Area("oceanic plate", "f", << <<lo, -9>>, <<hi, -9>>, <<hi, 9>>, <<lo, 9>> >>, 0, 120 * Km, <<m>>, <<>>, <<>>, <<>>)>>)
OSphProbes(c) == LET l == PlateLons(c)  a == IF l[1] < l[2] THEN l[1] ELSE l[2] IN
                 << <<a + 2, 0>>, <<a + 9, 3>>, <<a + 14, -4>>, <<a + 17, 6>>, <<a + 5, -7>> >>
OSphRows(c) == LET ps == OSphProbes(c) IN
   FlattenSeq([k \in 1..Len(ps) |-> [i \in 1..13 |-> <<RE - 10 * Km * (i - 1), ps[k][1], ps[k][2], 10 * Km * (i - 1), k>>]])
OSphBehaviour(c) ==
  [id |-> <<"envelope-ocean-sphere", c>>, labels |-> <<"envelope", c.model, "sphere", "plate-" \o c.plate, "velocity-" \o c.grad>>,
   steps |-> << [op |-> "create", h |-> 1, wb |-> OSphDoc(c)],
                [op |-> "qtable", h |-> 1, dim |-> 3, sph |-> TRUE, props |-> <<PT>>, rowlet |-> << <<"lo", 273>>, <<"hi", 1600>> >>,
                 checks |-> <<[k |-> "between", at |-> 0, col |-> 5, col2 |-> 6, slack |-> Dec(1, -9)], [k |-> "monotone", at |-> 0, col |-> 4, dir |-> "up", slack |-> Dec(1, -9)]>>,
                 rows |-> OSphRows(c)],
                [op |-> "qtable", h |-> 1, dim |-> 3, sph |-> TRUE, props |-> <<PT>>, checks |-> <<[k |-> "tol", at |-> 0, col |-> 4, rel |-> Dec(1, -6), abs |-> Dec(1, -6)]>>,
                 rows |-> [k \in 1..Len(OSphProbes(c)) |-> <<RE, OSphProbes(c)[k][1], OSphProbes(c)[k][2], 0, 273>>]] >>]

(*************************** slabs ********************************************)
SModels == {"mass conserving", "plate model"}
(* short: a nascent slab -- one segment of 200 km, the taper as long as the slab, so that it starts above the coupling depth *)
SCase == [model : SModels, ref : {"half space model", "plate model"}, dip : {30, 60}, vel : {2, 5, 10}, age : {1, 4}, short : BOOLEAN]
SValid(c) == (c.model = "mass conserving" \/ c.ref = "half space model") /\ (c.short => c.model = "mass conserving")
SDoc(c) ==
  LET m == IF c.model = "mass conserving"
           THEN    ("model" :> "mass conserving") @@ ("density" :> 3300) @@ ("thermal conductivity" :> Dec(33, -1)) @@ ("adiabatic heating" :> TRUE)
                @@ ("spreading velocity" :> Dec(5, -2)) @@ ("subducting velocity" :> Dec(c.vel, -2)) @@ ("reference model name" :> c.ref)
                @@ ("ridge coordinates" :> << <<P(-c.age * 1000, -3000), P(-c.age * 1000, 3000)>> >>) @@ ("coupling depth" :> (IF c.short THEN 100 ELSE 80) * Km)
                @@ ("taper distance" :> (IF c.short THEN 200 ELSE 100) * Km) @@ ("min distance slab top" :> -200 * Km) @@ ("max distance slab top" :> 300 * Km)
           ELSE    ("model" :> "plate model") @@ ("density" :> 3300) @@ ("plate velocity" :> Dec(c.vel, -2)) @@ ("thermal conductivity" :> Dec(25, -1))
                @@ ("adiabatic heating" :> TRUE) @@ ("min distance slab top" :> 0) @@ ("max distance slab top" :> 100 * Km)      \* McKenzie: inside the plate
  IN WorldOf(<<Line("subducting plate", "f", <<P(500, -1000), P(500, 2000)>>, P(2000, 500), 0, 1000 * Km,
                    IF c.short THEN <<Segment(200 * Km, <<300 * Km>>, <<-200 * Km>>, <<c.dip>>)>>
                    ELSE IF c.model = "mass conserving"
                    THEN <<Segment(300 * Km, <<300 * Km>>, <<-200 * Km>>, <<c.dip>>), Segment(400 * Km, <<300 * Km>>, <<-200 * Km>>, <<c.dip, c.dip + 15>>)>>
                    ELSE <<Segment(300 * Km, <<100 * Km>>, <<0>>, <<c.dip>>), Segment(400 * Km, <<100 * Km>>, <<0>>, <<c.dip, c.dip + 15>>)>>,
                    <<m>>, <<>>, <<>>, <<>>)>>)
(* probes on a lattice in the plane y = 500 km, around and inside the slab *)
SRows == LET ps == SetToSeq({200 + 50 * i : i \in 0..20} \X {10 * j : j \in 0..60}) IN
         [k \in 1..Len(ps) |-> <<ps[k][1] * Km, 500 * Km, HM - ps[k][2] * Km, ps[k][2] * Km>>]
(* the nascent slab is probed on a fine lattice (2 km) around it *)
SRowsShort == LET ps == SetToSeq({440 + 2 * i : i \in 0..150} \X {2 * j : j \in 0..100}) IN
              [k \in 1..Len(ps) |-> <<ps[k][1] * Km, 500 * Km, HM - ps[k][2] * Km, ps[k][2] * Km>>]
SBehaviour(c) ==
  [id |-> <<"envelope-slab", c>>, labels |-> <<"envelope", "slab " \o c.model, IF c.short THEN "nascent-slab" ELSE "long-slab">>,
   steps |-> << [op |-> "create", h |-> 1, wb |-> SDoc(c)],
                [op |-> "qtable", h |-> 1, dim |-> 3, props |-> <<PT>>,
                 rowlet |-> << <<"lo", 273>>, <<"hi", Adiabat(V("$3"))>> >>,
                 checks |-> <<[k |-> "between", at |-> 0, col |-> 4, col2 |-> 5, slack |-> Dec(1, -9)]>>, rows |-> IF c.short THEN SRowsShort ELSE SRows] >>]

VARIABLE case
Init == case \in ({"ocean"} \X OCase) \cup ({"slab"} \X {c \in SCase : SValid(c)}) \cup ({"ocean-sphere"} \X OSphCase)
Next == UNCHANGED case
Emit == PrintT(<<"B", ToJson(CASE case[1] = "ocean" -> OBehaviour(case[2]) [] case[1] = "slab" -> SBehaviour(case[2]) [] OTHER -> OSphBehaviour(case[2]))>>)
=============================================================================
