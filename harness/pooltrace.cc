// Drives gwb-grid's own ThreadPool (source/gwb-grid/main.cc compiled in with main renamed; no hook)
// with a recording functor and writes the observed executions as an ndjson trace for PoolTrace.tla.
//   pooltrace <out.ndjson> n1 T1 n2 T2 ...
#define main gwb_grid_main
#include GWB_GRID_MAIN
#undef main

#include <atomic>
#include <fstream>
#include <mutex>

namespace
{
  struct Rec { size_t lo, last; size_t cnt; };
  std::mutex mtx;
  std::vector<Rec> slices;
  thread_local long my_slot = -1;
  thread_local unsigned long my_epoch = 0;
  unsigned long epoch = 0;
}

int main(int argc, char **argv)
{
  if (argc < 4) { std::cerr << "usage: pooltrace out.ndjson n T [n T ...]\n"; return 2; }
  std::ofstream out(argv[1]);
  for (int a = 2; a + 1 < argc; a += 2)
    {
      const size_t n = static_cast<size_t>(std::atol(argv[a]));
      const size_t T = static_cast<size_t>(std::atol(argv[a+1]));
      std::vector<std::atomic<int>> count(n);
      for (auto &c : count) c = 0;
      slices.clear();
      slices.reserve(T + 8);   // no reallocation while workers hold references
      ++epoch;
      ThreadPool pool(T);
      pool.parallel_for(0, n, [&] (size_t k)
      {
        if (my_slot < 0 || my_epoch != epoch)
          {
            // first call made by this worker thread
            std::lock_guard<std::mutex> lock(mtx);
            my_slot = static_cast<long>(slices.size());
            my_epoch = epoch;
            slices.push_back({k, k, 0});
          }
        // each worker owns its record: no lock needed after registration
        Rec &r = slices[static_cast<size_t>(my_slot)];
        r.last = k;
        ++r.cnt;
        if (k < n) ++count[k];
      });
      std::sort(slices.begin(), slices.end(), [](const Rec &x, const Rec &y) { return x.lo < y.lo; });
      out << "{\"e\":\"Reset\",\"n\":" << n << ",\"T\":" << T << "}\n";
      for (const Rec &r : slices)
        out << "{\"e\":\"Slice\",\"lo\":" << r.lo << ",\"hi\":" << r.last + 1 << ",\"cnt\":" << r.cnt << "}\n";
      int mn = n ? 1 << 30 : 0, mx = 0; long total = 0;
      for (auto &c : count) { mn = std::min(mn, c.load()); mx = std::max(mx, c.load()); total += c.load(); }
      out << "{\"e\":\"Done\",\"min\":" << mn << ",\"max\":" << mx << ",\"total\":" << total << "}\n";
    }
  return 0;
}
