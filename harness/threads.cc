// C14 (b): T real threads query one world concurrently; every reply must be bit-identical to the
// single-thread reference.  Built rel and tsan (ThreadSanitizer observes "no shared location is written").
//   threads <job.json> <nthreads> <rounds> <tmpdir>
#include "common.h"
#include "world_builder/world.h"
#include <atomic>
#include <fstream>
#include <iostream>
#include <thread>
#include <unistd.h>

using namespace verif;

int main(int argc, char **argv)
{
  if (argc < 5) { std::cerr << "usage: threads job.json nthreads rounds tmpdir\n"; return 2; }
  std::ifstream in(argv[1]);
  std::string text((std::istreambuf_iterator<char>(in)), std::istreambuf_iterator<char>());
  Document d;
  d.Parse(text.c_str());
  if (d.HasParseError()) { std::cerr << "bad job\n"; return 2; }
  const unsigned nthreads = static_cast<unsigned>(std::atoi(argv[2]));
  const int rounds = std::atoi(argv[3]);
  std::string path;
  if (d.HasMember("path")) path = d["path"].GetString();
  else
    {
      Value copy(d["wb"], d.GetAllocator());
      normalise(copy, d.GetAllocator());
      path = std::string(argv[4]) + "/threads_" + std::to_string(getpid()) + ".wb";
      std::ofstream f(path);
      f << dump(copy);
    }
  WorldBuilder::World world(path);

  struct Q { std::array<double,3> p; double depth; std::vector<std::array<unsigned int,3>> props; };
  std::vector<Q> qs;
  const double PI = 3.141592653589793238462643383279502884;
  for (auto &pt : d["points"].GetArray())
    for (auto &l : d["lists"].GetArray())
      {
        Q q;
        if (pt.HasMember("sph"))
          {
            const std::vector<double> v = eval_vec(pt["sph"]);
            const double lon = v[1] * (PI / 180.), lat = v[2] * (PI / 180.);
            q.p = {{v[0] *std::cos(lat) *std::cos(lon), v[0] *std::cos(lat) *std::sin(lon), v[0] *std::sin(lat)}};
          }
        else
          {
            const std::vector<double> v = eval_vec(pt["p"]);
            q.p = {{v[0], v[1], v[2]}};
          }
        q.depth = eval(pt["depth"]);
        for (auto &e : l.GetArray()) q.props.push_back({{e[0].GetUint(), e[1].GetUint(), e[2].GetUint()}});
        qs.push_back(q);
      }
  // single-thread reference
  std::vector<std::vector<double>> ref;
  for (auto &q : qs) ref.push_back(world.properties(q.p, q.depth, q.props));

  std::atomic<long> mismatches(0), done(0);
  std::vector<std::thread> ts;
  for (unsigned t = 0; t < nthreads; ++t)
    ts.emplace_back([&, t]()
    {
      for (int r = 0; r < rounds; ++r)
        for (size_t k = 0; k < qs.size(); ++k)
          {
            const size_t i = (k * (2 * t + 1) + t + static_cast<size_t>(r)) % qs.size();   // every thread its own order
            const std::vector<double> out = world.properties(qs[i].p, qs[i].depth, qs[i].props);
            bool same = out.size() == ref[i].size();
            for (size_t j = 0; same && j < out.size(); ++j) same = bits(out[j]) == bits(ref[i][j]);
            if (!same) ++mismatches;
            ++done;
          }
    });
  for (auto &t : ts) t.join();
  std::cout << "{\"threads\":" << nthreads << ",\"queries\":" << done.load() << ",\"distinct_queries\":" << qs.size()
            << ",\"mismatches\":" << mismatches.load() << "}" << std::endl;
  return mismatches.load() ? 1 : 0;
}
