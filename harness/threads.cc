// C14 (b): T real threads query one world concurrently; every reply must be bit-identical to the
// single-thread reference.  Built rel and tsan (ThreadSanitizer observes "no shared location is written").
//   threads <job.json> <nthreads> <rounds> <tmpdir>
#include "common.h"
#include "world_builder/world.h"
#include <atomic>
#include <fstream>
#include <iostream>
#include <thread>
#include <memory>
#include <unistd.h>
#include <sys/wait.h>

using namespace verif;

int main(int argc, char **argv)
{
  if (argc < 5) { std::cerr << "usage: threads job.json nthreads rounds tmpdir\n"; return 2; }
  std::ifstream in(argv[1]);
  std::string text((std::istreambuf_iterator<char>(in)), std::istreambuf_iterator<char>());
  Document d;
  d.Parse(text.c_str());
  if (d.HasParseError()) { std::cerr << "bad job\n"; return 2; }
  const unsigned nthreads = static_cast<unsigned>(std::atoi(argv[2]));
  const int rounds = std::atoi(argv[3]);
  std::string path;
  if (d.HasMember("path")) path = d["path"].GetString();
  else
    {
      Value copy(d["wb"], d.GetAllocator());
      normalise(copy, d.GetAllocator());
      path = std::string(argv[4]) + "/threads_" + std::to_string(getpid()) + ".wb";
      std::ofstream f(path);
      f << dump(copy);
    }
  std::unique_ptr<WorldBuilder::World> world_ptr;
  try { world_ptr.reset(new WorldBuilder::World(path)); }
  catch (const std::exception &) { std::cout << "{\"skipped\":\"world does not build\"}" << std::endl; return 77; }
  WorldBuilder::World &world = *world_ptr;

  struct Q { std::array<double,3> p; double depth; std::vector<std::array<unsigned int,3>> props; int dim; };
  std::vector<Q> qs;
  const double PI = 3.141592653589793238462643383279502884;
  for (auto &pt : d["points"].GetArray())
    for (auto &l : d["lists"].GetArray())
      {
        Q q;
        if (pt.HasMember("sph"))
          {
            const std::vector<double> v = eval_vec(pt["sph"]);
            const double lon = v[1] * (PI / 180.), lat = v[2] * (PI / 180.);
            q.p = {{v[0] *std::cos(lat) *std::cos(lon), v[0] *std::cos(lat) *std::sin(lon), v[0] *std::sin(lat)}};
          }
        else
          {
            const std::vector<double> v = eval_vec(pt["p"]);
            q.p = {{v[0], v[1], v.size() > 2 ? v[2] : 0.}};
          }
        q.dim = pt.HasMember("dim") ? pt["dim"].GetInt() : 3;
        q.depth = eval(pt["depth"]);
        for (auto &e : l.GetArray()) q.props.push_back({{e[0].GetUint(), e[1].GetUint(), e[2].GetUint()}});
        qs.push_back(q);
      }
  // The single-thread reference is computed in a process of its own (a child forked before this process has asked the
  // library anything): the threads below are then the FIRST to query this process's world, released together, so that state
  // which is set up lazily by the first query (function-local statics, caches) is set up under concurrency.
  auto ask = [&world](const Q &q)
  {
    try
      {
        return q.dim == 2 ? world.properties(std::array<double,2> {{q.p[0], q.p[1]}}, q.depth, q.props) : world.properties(q.p, q.depth, q.props);
      }
    catch (const std::exception &)
      {
        return std::vector<double> {{-12345.678}};       // a query that throws must throw for every thread alike
      }
  };
  std::vector<std::vector<double>> ref;
  {
    const std::string refpath = std::string(argv[4]) + "/threads_ref_" + std::to_string(getpid()) + ".bin";
    const pid_t child = fork();
    if (child == 0)
      {
        std::ofstream o(refpath, std::ios::binary);
        for (auto &q : qs)
          {
            const std::vector<double> v = ask(q);
            const unsigned long n = v.size();
            o.write(reinterpret_cast<const char *>(&n), sizeof n);
            o.write(reinterpret_cast<const char *>(v.data()), static_cast<std::streamsize>(n * sizeof(double)));
          }
        o.close();
        _exit(0);
      }
    int status = 0;
    if (child < 0 || waitpid(child, &status, 0) != child || !WIFEXITED(status) || WEXITSTATUS(status) != 0)
      { std::cerr << "reference process failed\n"; return 2; }
    std::ifstream i(refpath, std::ios::binary);
    for (size_t k = 0; k < qs.size(); ++k)
      {
        unsigned long n = 0;
        i.read(reinterpret_cast<char *>(&n), sizeof n);
        std::vector<double> v(n);
        i.read(reinterpret_cast<char *>(v.data()), static_cast<std::streamsize>(n * sizeof(double)));
        ref.push_back(v);
      }
    if (!i) { std::cerr << "reference file short\n"; return 2; }
    unlink(refpath.c_str());
  }

  std::atomic<long> mismatches(0), done(0);
  std::atomic<unsigned> ready(0);
  std::atomic<bool> go(false);
  std::vector<std::thread> ts;
  for (unsigned t = 0; t < nthreads; ++t)
    ts.emplace_back([&, t]()
    {
      ++ready;
      while (!go.load()) { }                      // released together
      for (int r = 0; r < rounds; ++r)
        for (size_t k = 0; k < qs.size(); ++k)
          {
            const size_t i = (k * (2 * t + 1) + t + static_cast<size_t>(r)) % qs.size();   // every thread its own order
            const std::vector<double> out = ask(qs[i]);
            bool same = out.size() == ref[i].size();
            for (size_t j = 0; same && j < out.size(); ++j) same = bits(out[j]) == bits(ref[i][j]);
            if (!same) ++mismatches;
            ++done;
          }
    });
  while (ready.load() < nthreads) { }
  go.store(true);
  for (auto &t : ts) t.join();
  // afterwards the same process asked by one thread must still give the reference answers
  for (size_t k = 0; k < qs.size(); ++k)
    {
      const std::vector<double> out = ask(qs[k]);
      bool same = out.size() == ref[k].size();
      for (size_t j = 0; same && j < out.size(); ++j) same = bits(out[j]) == bits(ref[k][j]);
      if (!same) ++mismatches;
    }
  std::cout << "{\"threads\":" << nthreads << ",\"queries\":" << done.load() << ",\"distinct_queries\":" << qs.size()
            << ",\"mismatches\":" << mismatches.load() << "}" << std::endl;
  return mismatches.load() ? 1 : 0;
}
