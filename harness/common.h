// Shared pieces of the conformance harness: JSON access, the generic term evaluator, number
// normalisation of spec-rendered documents, mismatch reporting.
//
// The term evaluator knows nothing about GWB: it evaluates the symbolic real terms the TLA+
// specification builds (DESIGN.md section 3) in binary64 with the libm the library links.
#ifndef VERIF_COMMON_H
#define VERIF_COMMON_H

#include "rapidjson/document.h"
#include "rapidjson/writer.h"
#include "rapidjson/stringbuffer.h"
#include "rapidjson/error/en.h"

#include <cmath>
#include <cstdio>
#include <cstdlib>
#include <cstring>
#include <map>
#include <sstream>
#include <stdexcept>
#include <string>
#include <vector>

namespace verif
{
  using rapidjson::Value;
  using rapidjson::Document;

  struct HarnessError : std::runtime_error
  {
    explicit HarnessError(const std::string &s) : std::runtime_error(s) {}
  };

  inline std::string dump(const Value &v)
  {
    rapidjson::StringBuffer sb;
    rapidjson::Writer<rapidjson::StringBuffer> w(sb);
    v.Accept(w);
    return sb.GetString();
  }

  inline bool is_dec(const Value &v)
  {
    return v.IsObject() && v.MemberCount() == 1 && v.HasMember("dec");
  }
  inline bool is_rat(const Value &v)
  {
    return v.IsObject() && v.MemberCount() == 1 && v.HasMember("rat");
  }
  inline bool is_term(const Value &v)
  {
    return v.IsObject() && v.HasMember("op") && v["op"].IsString();
  }

  double eval(const Value &v);

  // variables of terms: {"op":"var","name":n}; bound by "let"/"rowlet" of a step (generic, no domain knowledge)
  inline std::map<std::string, double> &env()
  {
    static std::map<std::string, double> e;
    return e;
  }

  inline double eval_list_fold(const Value &l, const std::string &op)
  {
    if (!l.IsArray() || l.Size() == 0) throw HarnessError("term: empty list for " + op);
    double acc = eval(l[0]);
    for (rapidjson::SizeType i = 1; i < l.Size(); ++i)
      {
        const double x = eval(l[i]);
        if (op == "sum") acc += x;
        else if (op == "prod") acc *= x;
        else if (op == "minl") acc = std::min(acc, x);
        else if (op == "maxl") acc = std::max(acc, x);
      }
    return acc;
  }

  // {"dec":[m,e]} = the decimal literal "m e e" (m*10^e) converted once, like the JSON parser does.
  inline double dec_value(const Value &v)
  {
    const Value &a = v["dec"];
    char buf[64];
    std::snprintf(buf, sizeof buf, "%lldE%lld", static_cast<long long>(a[0].GetInt64()), static_cast<long long>(a[1].GetInt64()));
    return std::strtod(buf, nullptr);
  }

  inline double eval(const Value &v)
  {
    if (v.IsNumber()) return v.GetDouble();
    if (v.IsBool()) return v.GetBool() ? 1. : 0.;
    if (is_dec(v)) return dec_value(v);
    if (is_rat(v)) return eval(v["rat"][0]) / eval(v["rat"][1]);
    if (!is_term(v)) throw HarnessError("term: not a number or term: " + dump(v));
    const std::string op = v["op"].GetString();
    auto A = [&]() { return eval(v["a"]); };
    auto B = [&]() { return eval(v["b"]); };
    if (op == "var")
      {
        auto it = env().find(v["name"].GetString());
        if (it == env().end()) throw HarnessError(std::string("term: unbound variable ") + v["name"].GetString());
        return it->second;
      }
    if (op == "num") return A();
    if (op == "add") return A() + B();
    if (op == "sub") return A() - B();
    if (op == "mul") return A() * B();
    if (op == "div") return A() / B();
    if (op == "neg") return -A();
    if (op == "abs") return std::fabs(A());
    if (op == "min") return std::min(A(), B());
    if (op == "max") return std::max(A(), B());
    if (op == "sqrt") return std::sqrt(A());
    if (op == "pow") return std::pow(A(), B());
    if (op == "exp") return std::exp(A());
    if (op == "log") return std::log(A());
    if (op == "erfc") return std::erfc(A());
    if (op == "erf") return std::erf(A());
    if (op == "tanh") return std::tanh(A());
    if (op == "sin") return std::sin(A());
    if (op == "cos") return std::cos(A());
    if (op == "tan") return std::tan(A());
    if (op == "acos") return std::acos(A());
    if (op == "asin") return std::asin(A());
    if (op == "atan2") return std::atan2(A(), B());
    if (op == "pi") return 3.141592653589793238462643383279502884;
    if (op == "deg2rad") return A() * (3.141592653589793238462643383279502884 / 180.0);
    if (op == "rad2deg") return A() * (180.0 / 3.141592653589793238462643383279502884);
    if (op == "sum" || op == "prod" || op == "minl" || op == "maxl") return eval_list_fold(v["l"], op);
    if (op == "ite") return (eval(v["c"]) != 0.) ? A() : B();
    if (op == "lt") return A() < B() ? 1. : 0.;
    if (op == "le") return A() <= B() ? 1. : 0.;
    if (op == "series")      // sum_{n=lo}^{hi} f(n): {"op":"series","var":"n","lo":1,"hi":100,"f":term using {"op":"var","name":"n"}}
      {
        const std::string var = v["var"].GetString();
        const long lo = static_cast<long>(eval(v["lo"])), hi = static_cast<long>(eval(v["hi"]));
        double acc = 0;
        for (long n = lo; n <= hi; ++n)
          {
            env()[var] = static_cast<double>(n);
            acc += eval(v["f"]);
          }
        return acc;
      }
    throw HarnessError("term: unknown op " + op);
  }

  // Replace every {"dec":..}, {"rat":..} and term object inside a spec-rendered document by the number
  // it denotes.  Objects with the single key "raw" are replaced by their content unchanged
  // (lets the spec embed an object that itself has a key called "op").
  inline void normalise(Value &v, Document::AllocatorType &a)
  {
    if (v.IsObject())
      {
        if (is_dec(v) || is_rat(v) || is_term(v))
          {
            const double d = eval(v);
            // integers stay integers so that e.g. "random number seed" and indices remain ints
            v.SetDouble(d);
            return;
          }
        for (auto &m : v.GetObject()) normalise(m.value, a);
      }
    else if (v.IsArray())
      for (auto &e : v.GetArray()) normalise(e, a);
  }

  inline std::vector<double> eval_vec(const Value &v)
  {
    std::vector<double> r;
    if (v.IsArray() && !is_term(v))
      for (auto &e : v.GetArray()) r.push_back(eval(e));
    else
      r.push_back(eval(v));
    return r;
  }

  inline std::string fmt(double d)
  {
    char b[48];
    std::snprintf(b, sizeof b, "%.17g", d);
    return b;
  }

  inline std::string jstr(const std::string &s)
  {
    std::string o = "\"";
    for (char c : s)
      {
        if (c == '"' || c == '\\') { o += '\\'; o += c; }
        else if (c == '\n') o += "\\n";
        else if (static_cast<unsigned char>(c) < 0x20) o += ' ';
        else o += c;
      }
    return o + "\"";
  }

  inline uint64_t bits(double d)
  {
    uint64_t u;
    std::memcpy(&u, &d, sizeof u);
    return u;
  }
}
#endif
