// Conformance harness, direction A (DESIGN.md 2.2): steps TLC-generated behaviours through the real
// GWB objects and compares every observable with what the specification's Prop layer says.
//
//   replay <behaviours.ndjson> [--from K] [--tmp DIR] [--timeout S]
//
// stdout protocol (one record per line):
//   "@ k"        behaviour k is about to run (lets the driver attribute a crash / time-out)
//   "M {json}"   a mismatch between the code and the specification's expectation
//   "S {json}"   final statistics
#include "common.h"

#include "world_builder/world.h"
#include "world_builder/wrapper_c.h"
#include "world_builder/wrapper_cpp.h"
#include "world_builder/grains.h"
#include "world_builder/utilities.h"
#include "world_builder/kd_tree.h"
#include "world_builder/objects/bezier_curve.h"
#include "world_builder/objects/surface.h"
#include "world_builder/objects/natural_coordinate.h"
#include "world_builder/coordinate_systems/spherical.h"
#include "world_builder/coordinate_systems/cartesian.h"
#ifdef GWB_VERIF
#include "world_builder/verif_hooks.h"
#endif

#include <csignal>
#include <fstream>
#include <iostream>
#include <memory>
#include <random>
#include <set>
#include <unistd.h>
#include <sys/stat.h>
#include <sys/time.h>

using namespace verif;
using WorldBuilder::World;

namespace
{
  struct Handle
  {
    std::string api;                       // native | c | cpp
    std::unique_ptr<World> native;
    void *cptr = nullptr;                  // C API handle
    std::unique_ptr<wrapper_cpp::WorldBuilderWrapper> cpp;
    bool alive = false;
    unsigned long seed = 1;
    World *world() const
    {
      if (native) return native.get();
      if (cptr) return reinterpret_cast<World *>(cptr);   // documented: the handle is the World
      return nullptr;
    }
  };

  struct Stats
  {
    long behaviours = 0, steps = 0, worlds = 0, queries = 0, values = 0, checks = 0, mismatches = 0,
         skipped_steps = 0, threw_create = 0, threw_query = 0, kernel_calls = 0;
    std::map<std::string, long> by_check;
  } stats;

  std::string tmpdir = "/tmp";
  bool dump_saves = false;
  bool only_finite = false;      // C13 mode: replay any specification's behaviours, judge only totality and finiteness
  // Environment steps.  The specification's behaviours never mention what else happens in the process: any other
  // world may be alive and may be asked anything between two steps, and no expectation may change (Wb.tla,
  // "Interfere").  With --interfere K the harness keeps up to K decoy worlds, built from documents this process has
  // seen, and asks one of them the same question (same point, depth and property list) right before every query.
  size_t interfere = 0;
  std::vector<std::unique_ptr<WorldBuilder::World>> decoys;
  size_t decoy_next = 0, decoy_seen = 0;
  long decoy_queries = 0;

  void decoy_consider(const std::string &path)        // the K most recently built documents stay alive as decoys
  {
    if (interfere == 0) return;
    try
      {
        std::unique_ptr<WorldBuilder::World> w(new WorldBuilder::World(path, false, "", 1ul));
        if (decoys.size() < interfere) decoys.push_back(std::move(w));
        else decoys[decoy_seen % interfere] = std::move(w);
        ++decoy_seen;
      }
    catch (...) {}
  }

  void decoy_ask(const int dim, const double *c, const double depth, const std::vector<std::array<unsigned int,3>> &props)
  {
    if (decoys.empty()) return;
    WorldBuilder::World &w = *decoys[decoy_next++ % decoys.size()];
    ++decoy_queries;
    try
      {
        if (dim == 2) (void) w.properties(std::array<double,2> {{c[0], c[1]}}, depth, props);
        else (void) w.properties(std::array<double,3> {{c[0], c[1], c[2]}}, depth, props);
      }
    catch (...) {}
  }
  std::string cur_id;
  std::string cur_labels = "[]";
  long cur_index = -1;
  int cur_step = -1;
  std::string cur_op;
  long mismatches_this_behaviour = 0;

  void mism(const std::string &check, const std::string &msg, long at = -1,
                const std::string &got = "", const std::string &want = "")
  {
    ++stats.mismatches;
    if (++mismatches_this_behaviour > 20) return;   // cap the noise per behaviour
    std::cout << "M {\"id\":" << jstr(cur_id) << ",\"index\":" << cur_index << ",\"labels\":" << cur_labels
              << ",\"step\":" << cur_step << ",\"op\":" << jstr(cur_op) << ",\"check\":" << jstr(check)
              << ",\"at\":" << at << ",\"got\":" << jstr(got) << ",\"want\":" << jstr(want)
              << ",\"msg\":" << jstr(msg.substr(0, 400)) << "}" << std::endl;
  }

  void on_alarm(int)
  {
    // async-signal-unsafe in principle; we are about to _exit and the driver restarts after this one
    const char *m = "\nT timeout\n";
    ssize_t r = write(1, m, std::strlen(m));
    (void) r;
    _exit(3);
  }

  void on_terminate()
  {
    const char *m = "\nT terminate\n";
    ssize_t r = write(1, m, std::strlen(m));
    (void) r;
    _exit(4);
  }

  std::vector<std::array<unsigned int,3>> get_props(const Value &v)
  {
    std::vector<std::array<unsigned int,3>> r;
    for (auto &e : v.GetArray())
      r.push_back({{e[0].GetUint(), e[1].GetUint(), e[2].GetUint()}});
    return r;
  }

  const double PI = 3.141592653589793238462643383279502884;

  // point of a query: "p": [numbers/terms] (Cartesian) or "sph": [r, lon_deg, lat_deg]
  std::vector<double> get_point(const Value &s)
  {
    if (s.HasMember("sph"))
      {
        const std::vector<double> v = eval_vec(s["sph"]);
        const double lon = v[1] * (PI / 180.), lat = v[2] * (PI / 180.);
        return {v[0] *std::cos(lat) *std::cos(lon), v[0] *std::cos(lat) *std::sin(lon), v[0] *std::sin(lat)};
      }
    return eval_vec(s["p"]);
  }

  std::map<std::string, std::vector<double>> global_saves;
  std::map<std::string, std::string> global_docs;          // defdoc: name -> path of the rendered file
  std::map<std::string, std::string> global_targets;       // deftargets: name -> JSON array text
  std::map<int, Handle> global_handles;                    // worlds created by a global behaviour persist

  struct Runner
  {
    std::map<int, Handle> local_handles;
    std::map<std::string, std::vector<double>> saves;
    bool global = false;
    std::string pre;                                         // reference-name prefix of the current target

    Handle &handle(int h)
    {
      if (global) return global_handles[h];
      auto it = local_handles.find(h);
      if (it != local_handles.end()) return it->second;
      auto g = global_handles.find(h);
      if (g != global_handles.end()) return g->second;
      return local_handles[h];
    }

    const std::vector<double> *lookup(const std::string &name) const
    {
      auto it = saves.find(name);
      if (it != saves.end()) return &it->second;
      auto g = global_saves.find(name);
      if (g != global_saves.end()) return &g->second;
      return nullptr;
    }

    std::string write_doc(const Value &wb, Document &owner, const std::string &name = "")
    {
      Value copy(wb, owner.GetAllocator());
      normalise(copy, owner.GetAllocator());
      static long counter = 0;
      const std::string path = tmpdir + "/w" + std::to_string(getpid()) + "_" + (name.empty() ? std::to_string(counter++ % 64) : "doc_" + name) + ".wb";
      std::ofstream f(path);
      if (copy.IsString()) f << copy.GetString();        // raw bytes (C12 byte-level mutants)
      else f << dump(copy);
      return path;
    }

    void do_create(const Value &s, Document &owner)
    {
      const int h = s["h"].GetInt();
      Handle &H = global ? global_handles[h] : local_handles[h];
      H = Handle();
      H.api = s.HasMember("api") ? s["api"].GetString() : "native";
      H.seed = s.HasMember("seed") ? static_cast<unsigned long>(eval(s["seed"])) : 1ul;
      const std::string expect = s.HasMember("expect") ? s["expect"].GetString() : "ok";
      std::string path;
      if (s.HasMember("path")) path = s["path"].GetString();
      else if (s.HasMember("doc"))
        {
          auto it = global_docs.find(s["doc"].GetString());
          if (it == global_docs.end()) throw HarnessError(std::string("unknown doc ") + s["doc"].GetString());
          path = it->second;
        }
      else path = write_doc(s["wb"], owner);
      if (!path.empty() && path[0] != '/') path = std::string(VERIF_REPO) + "/" + path;
      if (s.HasMember("blank_name") && s["blank_name"].GetBool())
        {
          // the file name ends with a blank (valid on POSIX); no file of the same name without the blank exists
          const std::string blank = tmpdir + "/b" + std::to_string(getpid()) + "_" + std::to_string(stats.worlds) + ".wb ";
          std::ifstream src(path, std::ios::binary); std::ofstream dst(blank, std::ios::binary); dst << src.rdbuf();
          path = blank;
        }
      const bool has_outdir = s.HasMember("outdir");
      const std::string outdir = has_outdir ? s["outdir"].GetString() : "";
#ifdef GWB_VERIF
      WorldBuilder::Verif::disable_culling() = s.HasMember("culling") && !s["culling"].GetBool();
#endif
      ++stats.worlds;
      try
        {
          if (H.api == "native")
            {
              if (s.HasMember("default_seed") && s["default_seed"].GetBool())
                H.native.reset(new World(path, has_outdir, outdir));
              else
                H.native.reset(new World(path, has_outdir, outdir, H.seed));
            }
          else if (H.api == "c")
            {
              const bool flag = has_outdir;
              const bool null_flag = s.HasMember("null_flag") && s["null_flag"].GetBool();
              create_world(&H.cptr, path.c_str(), null_flag ? nullptr : &flag, has_outdir ? outdir.c_str() : nullptr, H.seed);
            }
          else if (H.api == "cpp")
            H.cpp.reset(new wrapper_cpp::WorldBuilderWrapper(path, has_outdir, outdir, H.seed));
          else
            throw HarnessError("unknown api " + H.api);
          H.alive = true;
          if (!global && H.api == "native" && !has_outdir) decoy_consider(path);
          if (expect == "throw" && !only_finite)
            mism("create", "construction succeeded but the specification says the document must be rejected");
        }
      catch (const HarnessError &)
        {
          throw;
        }
      catch (const std::exception &e)
        {
          ++stats.threw_create;
          H.alive = false;
          if (expect == "ok" && !only_finite)
            mism("create", std::string("construction threw: ") + e.what());
          else if (std::string(e.what()).empty())
            mism("create", "exception without a message");
        }
      catch (...)
        {
          H.alive = false;
          mism("create", "construction threw something that is not a std::exception");
        }
#ifdef GWB_VERIF
      WorldBuilder::Verif::disable_culling() = false;
#endif
    }

    void do_release(const Value &s)
    {
      Handle &H = handle(s["h"].GetInt());
      if (!H.alive) { ++stats.skipped_steps; return; }
      if (H.api == "c" && H.cptr) release_world(H.cptr);
      H = Handle();
    }

    // run the query described by step s on handle H; returns false if it threw
    bool run_query(const Value &s, const Value &t, Handle &H, std::vector<double> &out, std::string &what)
    {
      const int dim = t.HasMember("dim") ? t["dim"].GetInt() : 3;
      const std::vector<double> p = get_point(t);
      const double depth = eval(t["depth"]);
      const std::string via = s.HasMember("via") ? s["via"].GetString() : "props";
      const auto props = get_props(s["props"]);
      ++stats.queries;
      if (p.size() >= static_cast<size_t>(dim)) decoy_ask(dim, p.data(), depth, props);
      try
        {
          if (H.api == "native")
            {
              World &w = *H.native;
              if (via == "props")
                out = dim == 2 ? w.properties(std::array<double,2> {{p[0], p[1]}}, depth, props)
                      : w.properties(std::array<double,3> {{p[0], p[1], p[2]}}, depth, props);
              else if (via == "temperature")
                out = {dim == 2 ? w.temperature(std::array<double,2>{{p[0], p[1]}}, depth)
                       : w.temperature(std::array<double,3>{{p[0], p[1], p[2]}}, depth)
                      };
              else if (via == "temperature_g")      // the deprecated overloads that still take a gravity norm
                {
#pragma GCC diagnostic push
#pragma GCC diagnostic ignored "-Wdeprecated-declarations"
                  out = {dim == 2 ? w.temperature(std::array<double,2>{{p[0], p[1]}}, depth, 10.)
                         : w.temperature(std::array<double,3>{{p[0], p[1], p[2]}}, depth, 10.)
                        };
#pragma GCC diagnostic pop
                }
              else if (via == "composition")
                out = {dim == 2 ? w.composition(std::array<double,2>{{p[0], p[1]}}, depth, props[0][1])
                       : w.composition(std::array<double,3>{{p[0], p[1], p[2]}}, depth, props[0][1])
                      };
              else if (via == "grains")
                {
                  WorldBuilder::grains g = dim == 2 ? w.grains(std::array<double,2> {{p[0], p[1]}}, depth, props[0][1], props[0][2])
                                           : w.grains(std::array<double,3> {{p[0], p[1], p[2]}}, depth, props[0][1], props[0][2]);
                  out.assign(props[0][2] * 10, 0.);
                  g.unroll_into(out, 0);
                }
              else throw HarnessError("unknown via " + via);
            }
          else if (H.api == "c")
            {
              if (via == "props")
                {
                  std::vector<unsigned int> flat;
                  for (auto &q : props) { flat.push_back(q[0]); flat.push_back(q[1]); flat.push_back(q[2]); }
                  flat.resize(flat.size() + 3);
                  const unsigned int (*pp)[3] = reinterpret_cast<const unsigned int (*)[3]>(flat.data());
                  const unsigned int n = properties_output_size(H.cptr, pp, static_cast<unsigned int>(props.size()));
                  // guard words after the announced size: the C API must write exactly n values
                  out.assign(n + 4, -7.25e300);
                  if (dim == 2) properties_2d(H.cptr, p[0], p[1], depth, pp, static_cast<unsigned int>(props.size()), out.data());
                  else properties_3d(H.cptr, p[0], p[1], p[2], depth, pp, static_cast<unsigned int>(props.size()), out.data());
                  for (unsigned int i = n; i < n + 4; ++i)
                    if (out[i] != -7.25e300) mism("c-overrun", "C API wrote past the announced output size", i);
                  out.resize(n);
                }
              else if (via == "temperature")
                {
                  double t = 0;
                  if (dim == 2) temperature_2d(H.cptr, p[0], p[1], depth, &t);
                  else temperature_3d(H.cptr, p[0], p[1], p[2], depth, &t);
                  out = {t};
                }
              else if (via == "composition")
                {
                  double c = 0;
                  if (dim == 2) composition_2d(H.cptr, p[0], p[1], depth, props[0][1], &c);
                  else composition_3d(H.cptr, p[0], p[1], p[2], depth, props[0][1], &c);
                  out = {c};
                }
              else throw HarnessError("via " + via + " not available through the C API");
            }
          else if (H.api == "cpp")
            {
              auto &w = *H.cpp;
              if (via == "temperature")
                out = {dim == 2 ? w.temperature_2d(p[0], p[1], depth) : w.temperature_3d(p[0], p[1], p[2], depth)};
              else if (via == "temperature_g")
                out = {dim == 2 ? w.temperature_2d(p[0], p[1], depth, 10.) : w.temperature_3d(p[0], p[1], p[2], depth, 10.)};
              else if (via == "composition")
                out = {dim == 2 ? w.composition_2d(p[0], p[1], depth, props[0][1]) : w.composition_3d(p[0], p[1], p[2], depth, props[0][1])};
              else throw HarnessError("via " + via + " not available through the C++ wrapper");
            }
          return true;
        }
      catch (const HarnessError &)
        {
          throw;
        }
      catch (const std::exception &e)
        {
          ++stats.threw_query;
          what = e.what();
          return false;
        }
      catch (...)
        {
          what = "<<not a std::exception>>";
          mism("query", "query threw something that is not a std::exception");
          return false;
        }
    }

    void check_expectations(const Value &s, Handle &H, const std::vector<double> &out)
    {
      if (!s.HasMember("expect")) return;
      for (auto &e : s["expect"].GetArray())
        {
          const std::string k = e["k"].GetString();
          const long at = e.HasMember("at") ? e["at"].GetInt64() : 0;
          ++stats.checks; ++stats.by_check[k];
          if (k == "throws") { mism(k, "query returned but the specification says it must be refused"); continue; }
          if (k == "len")
            {
              if (static_cast<long>(out.size()) != e["n"].GetInt64())
                mism(k, "reply length", -1, std::to_string(out.size()), std::to_string(e["n"].GetInt64()));
              continue;
            }
          if (k == "size")   // reply length equals the announced size
            {
              World *w = H.world();
              if (w)
                {
                  const unsigned int n = w->properties_output_size(get_props(s["props"]));
                  if (n != out.size())
                    mism(k, "reply length differs from properties_output_size", -1, std::to_string(out.size()), std::to_string(n));
                }
              continue;
            }
          if (k == "finite")
            {
              for (size_t i = 0; i < out.size(); ++i)
                {
                  ++stats.values;
                  if (!std::isfinite(out[i])) { mism(k, "non-finite value returned", static_cast<long>(i), fmt(out[i]), "finite"); break; }
                }
              continue;
            }
          if (k == "bits")
            {
              const std::string ref = pre + e["ref"].GetString();
              const std::vector<double> *r = lookup(ref);
              if (!r) { mism(k, "reference '" + ref + "' not recorded (harness)"); continue; }
              const long refat = e.HasMember("refat") ? e["refat"].GetInt64() : 0;
              const long n = e.HasMember("n") ? e["n"].GetInt64() : static_cast<long>(r->size()) - refat;
              if (at + n > static_cast<long>(out.size()) || refat + n > static_cast<long>(r->size()))
                {
                  mism(k, "block [" + std::to_string(at) + "," + std::to_string(at+n) + ") does not fit the reply of length "
                           + std::to_string(out.size()) + " (ref " + ref + " length " + std::to_string(r->size()) + ")", at);
                  continue;
                }
              for (long i = 0; i < n; ++i)
                {
                  ++stats.values;
                  if (bits(out[at+i]) != bits((*r)[refat+i]))
                    {
                      mism(k, "block differs from reference " + ref, at + i, fmt(out[at+i]), fmt((*r)[refat+i]));
                      break;
                    }
                }
              continue;
            }
          if (k == "tag")
            {
              World *w = H.world();
              double want = -1;
              if (e.HasMember("name") && e["name"].IsString() && w)
                {
                  const std::string name = e["name"].GetString();
                  want = -2;
                  for (size_t i = 0; i < w->feature_tags.size(); ++i)
                    if (w->feature_tags[i] == name) want = static_cast<double>(i);
                }
              ++stats.values;
              if (at >= static_cast<long>(out.size()) || out[at] != want)
                mism(k, std::string("tag is not that of ") + (e.HasMember("name") && e["name"].IsString() ? e["name"].GetString() : "<background>"),
                         at, at < static_cast<long>(out.size()) ? fmt(out[at]) : "missing", fmt(want));
              continue;
            }
          if (k == "eq" || k == "tol")
            {
              const std::vector<double> want = eval_vec(e["v"]);
              const double rel = e.HasMember("rel") ? eval(e["rel"]) : 0., abs_ = e.HasMember("abs") ? eval(e["abs"]) : 0.;
              if (at + want.size() > out.size()) { mism(k, "expected values do not fit the reply", at); continue; }
              for (size_t i = 0; i < want.size(); ++i)
                {
                  ++stats.values;
                  const double g = out[at+i], w = want[i];
                  const bool ok = (k == "eq") ? (g == w) : (std::fabs(g - w) <= abs_ + rel *std::max(std::fabs(g), std::fabs(w)));
                  if (!ok || std::isnan(g)) { mism(k, "value differs from the specification's", at + static_cast<long>(i), fmt(g), fmt(w)); break; }
                }
              continue;
            }
          if (k == "near" || k == "lin")   // relative to a saved reply: within tolerance / a linear map of it
            {
              const std::string ref = pre + e["ref"].GetString();
              const std::vector<double> *r = lookup(ref);
              if (!r) { mism(k, "reference '" + ref + "' not recorded (harness)"); continue; }
              const long refat = e.HasMember("refat") ? e["refat"].GetInt64() : 0;
              const double rel = e.HasMember("rel") ? eval(e["rel"]) : 0., abs_ = e.HasMember("abs") ? eval(e["abs"]) : 0.;
              std::vector<double> want;
              if (k == "near")
                {
                  const long n = e.HasMember("n") ? e["n"].GetInt64() : static_cast<long>(r->size()) - refat;
                  if (refat + n > static_cast<long>(r->size())) { mism(k, "reference block does not fit", at); continue; }
                  want.assign(r->begin() + refat, r->begin() + refat + n);
                }
              else
                for (auto &row : e["m"].GetArray())
                  {
                    double acc = 0;
                    for (rapidjson::SizeType j = 0; j < row.Size(); ++j)
                      {
                        if (refat + static_cast<long>(j) >= static_cast<long>(r->size())) { acc = std::nan(""); break; }
                        acc += eval(row[j]) * (*r)[refat + j];
                      }
                    want.push_back(acc);
                  }
              if (at + want.size() > out.size()) { mism(k, "expected values do not fit the reply", at); continue; }
              for (size_t i = 0; i < want.size(); ++i)
                {
                  ++stats.values;
                  const double g = out[at+i], w = want[i];
                  if (!(std::fabs(g - w) <= abs_ + rel *std::max(std::fabs(g), std::fabs(w))))
                    { mism(k, "value differs from what the specification derives from " + ref, at + static_cast<long>(i), fmt(g), fmt(w)); break; }
                }
              continue;
            }
          if (k == "between")
            {
              const double lo = eval(e["lo"]), hi = eval(e["hi"]);
              const double slack = (e.HasMember("slack") ? eval(e["slack"]) : 1e-9) * std::max(std::fabs(lo), std::fabs(hi));
              ++stats.values;
              if (at >= static_cast<long>(out.size()) || !(out[at] >= std::min(lo,hi) - slack && out[at] <= std::max(lo,hi) + slack))
                mism(k, "value outside the envelope", at, at < static_cast<long>(out.size()) ? fmt(out[at]) : "missing", fmt(lo) + ".." + fmt(hi));
              continue;
            }
          if (k == "differs")   // at least one value differs from the reference (e.g. different seeds)
            {
              const std::vector<double> *r = lookup(e["ref"].GetString());
              if (!r) { mism(k, "reference not recorded (harness)"); continue; }
              bool same = r->size() == out.size();
              for (size_t i = 0; same && i < out.size(); ++i) same = bits(out[i]) == bits((*r)[i]);
              if (same) mism(k, std::string("reply identical to ") + e["ref"].GetString() + " although the specification says it differs");
              continue;
            }
          if (k == "rotations")   // every grain of a grains block: orthonormal, det +1; sizes per mode
            {
              const long n = e["n"].GetInt64();
              const double tol = e.HasMember("tol") ? eval(e["tol"]) : 1e-12;
              if (at + 10*n > static_cast<long>(out.size())) { mism(k, "grains block does not fit", at); continue; }
              for (long g = 0; g < n; ++g)
                {
                  const double *R = &out[at + n + 9*g];
                  double worst = 0;
                  for (int i = 0; i < 3; ++i)
                    for (int j = 0; j < 3; ++j)
                      {
                        double d = 0;
                        for (int l = 0; l < 3; ++l) d += R[3*i+l] * R[3*j+l];
                        worst = std::max(worst, std::fabs(d - (i == j ? 1. : 0.)));
                      }
                  const double det = R[0]*(R[4]*R[8]-R[5]*R[7]) - R[1]*(R[3]*R[8]-R[5]*R[6]) + R[2]*(R[3]*R[7]-R[4]*R[6]);
                  stats.values += 9;
                  if (!(worst <= tol) || !(std::fabs(det - 1.) <= tol))
                    { mism(k, "grain orientation is not a proper rotation", at + n + 9*g, "orth.err=" + fmt(worst) + " det=" + fmt(det), "orthonormal, det=+1"); break; }
                }
              if (e.HasMember("sizes_sum"))
                {
                  double sum = 0;
                  for (long g = 0; g < n; ++g) sum += out[at+g];
                  if (!(std::fabs(sum - eval(e["sizes_sum"])) <= 1e-12 * std::max<double>(1., static_cast<double>(n))))
                    mism(k, "grain sizes do not sum to the specified total", at, fmt(sum), fmt(eval(e["sizes_sum"])));
                }
              if (e.HasMember("sizes_in"))
                for (long g = 0; g < n; ++g)
                  if (!(out[at+g] >= eval(e["sizes_in"][0]) && out[at+g] <= eval(e["sizes_in"][1])))
                    { mism(k, "grain size outside its range", at+g, fmt(out[at+g])); break; }
              continue;
            }
          throw HarnessError("unknown expectation kind " + k);
        }
    }

    void do_query_one(const Value &s, const Value &t)
    {
      Handle &H = handle((t.HasMember("h") ? t["h"] : s["h"]).GetInt());
      if (!H.alive) { ++stats.skipped_steps; return; }
      pre = t.HasMember("pre") ? t["pre"].GetString() : "";
      std::vector<double> out;
      std::string what;
      const bool ok = run_query(s, t, H, out, what);
      bool expect_throw = false, may_throw = s.HasMember("may_throw") && s["may_throw"].GetBool();
      if (s.HasMember("expect"))
        for (auto &e : s["expect"].GetArray())
          if (std::string(e["k"].GetString()) == "throws") expect_throw = true;
      if (!ok)
        {
          if (!expect_throw && !may_throw && !only_finite) mism("query", "query threw: " + what);
          else if (what.empty()) mism("query", "exception without a message");
          if (expect_throw) { ++stats.checks; ++stats.by_check["throws"]; }
          return;
        }
      if (s.HasMember("save"))
        {
          (global ? global_saves : saves)[s["save"].GetString()] = out;
          if (dump_saves)
            {
              std::cout << "V " << s["save"].GetString();
              for (double d : out) std::cout << " " << fmt(d);
              std::cout << std::endl;
            }
        }
      if (only_finite)
        {
          ++stats.checks; ++stats.by_check["finite"];
          for (size_t i = 0; i < out.size(); ++i)
            if (!std::isfinite(out[i])) { mism("finite", "non-finite value returned", static_cast<long>(i), fmt(out[i]), "finite"); break; }
          return;
        }
      check_expectations(s, H, out);
    }

    // a query step either carries its own point ("h","dim","p"|"sph","depth","pre") or names a
    // target list defined once by "deftargets": the same request is then made at every target
    void do_query(const Value &s)
    {
      if (s.HasMember("tsel"))      // one target of a named list, queried through the step's own handle
        {
          auto it = global_targets.find(s["tsel"][0].GetString());
          if (it == global_targets.end()) throw HarnessError(std::string("unknown target list ") + s["tsel"][0].GetString());
          Document td;
          td.Parse<rapidjson::kParseFullPrecisionFlag>(it->second.c_str());
          const rapidjson::SizeType i = static_cast<rapidjson::SizeType>(s["tsel"][1].GetInt() - 1);
          if (i >= td.Size()) throw HarnessError("target index out of range");
          Value t(td[i], td.GetAllocator());
          t.RemoveMember("h");
          t.AddMember("h", Value(s["h"].GetInt()), td.GetAllocator());
          do_query_one(s, t);
          return;
        }
      if (!s.HasMember("targets")) { do_query_one(s, s); return; }
      Document td;
      const Value *list = &s["targets"];
      if (list->IsString())
        {
          auto it = global_targets.find(list->GetString());
          if (it == global_targets.end()) throw HarnessError(std::string("unknown target list ") + list->GetString());
          td.Parse(it->second.c_str());
          list = &td;
        }
      for (auto &t : list->GetArray()) do_query_one(s, t);
    }

    // compact form of many queries with the same request: rows = [x, y, z, depth, cells...]; each check
    // names the output index it looks at and the row cell holding the expected value
    void do_qtable(const Value &s)
    {
      Handle &H = handle(s["h"].GetInt());
      if (!H.alive || !H.world()) { ++stats.skipped_steps; return; }
      World &w = *H.world();
      const auto props = get_props(s["props"]);
      const int dim = s.HasMember("dim") ? s["dim"].GetInt() : 3;
      const int off = dim == 3 ? 4 : 3;
      const bool sph_rows = s.HasMember("sph") && s["sph"].IsBool() && s["sph"].GetBool();
      // "let": [[name, term], ...] evaluated once, in order; "rowlet": the same per row, after the row's
      // cells have been bound to $0, $1, ...; a rowlet value is appended to the row as a further cell
      std::map<std::string, double> previous;       // monotone checks: last value per (check, group)
      env().clear();
      if (s.HasMember("let"))
        for (auto &b : s["let"].GetArray()) env()[b[0].GetString()] = eval(b[1]);
      for (auto &row : s["rows"].GetArray())
        {
          std::vector<double> c;
          for (auto &cell : row.GetArray()) c.push_back((cell.IsNull() || (cell.IsObject() && cell.HasMember("null"))) ? std::nan("") : eval(cell));
          if (s.HasMember("rowlet"))
            {
              for (size_t i = 0; i < c.size(); ++i) env()["$" + std::to_string(i)] = c[i];
              for (auto &b : s["rowlet"].GetArray())
                {
                  const double v = eval(b[1]);
                  env()[b[0].GetString()] = v;
                  c.push_back(v);
                }
            }
          if (sph_rows)
            {
              const double r = c[0], lon = c[1] * (PI / 180.), lat = c[2] * (PI / 180.);
              c[0] = r * std::cos(lat) * std::cos(lon); c[1] = r * std::cos(lat) * std::sin(lon); c[2] = r * std::sin(lat);
            }
          std::vector<double> out;
          ++stats.queries;
          decoy_ask(dim, c.data(), dim == 3 ? c[3] : c[2], props);
          // "pre_dist": the other public query, World::distance_to_plane, is asked for the named features at the very same point
          // first -- a query of one kind must not change the answer to the next query of another kind
          if (s.HasMember("pre_dist") && dim == 3)
            for (auto &nm : s["pre_dist"].GetArray())
              {
                try { (void) w.distance_to_plane({{c[0], c[1], c[2]}}, c[3], nm.GetString()); ++stats.by_check["pre-distance-to-plane"]; }
                catch (const std::exception &) {}
              }
          try
            {
              out = dim == 3 ? w.properties(std::array<double,3> {{c[0], c[1], c[2]}}, c[3], props)
                    : w.properties(std::array<double,2> {{c[0], c[1]}}, c[2], props);
            }
          catch (const std::exception &e)
            {
              ++stats.threw_query;
              const bool may_throw = s.HasMember("may_throw") && s["may_throw"].GetBool();
              if (!only_finite && !may_throw) mism("query", std::string("query threw: ") + e.what());
              if (may_throw && !only_finite && s.HasMember("h2"))     // a refusal is part of the answer: the twin must refuse as well
                {
                  Handle &H2 = handle(s["h2"].GetInt());
                  if (H2.alive && H2.world() && !s.HasMember("pos2"))
                    {
                      ++stats.checks; ++stats.by_check["twin-refusal"];
                      try
                        {
                          if (dim == 3) (void) H2.world()->properties(std::array<double,3> {{c[0], c[1], c[2]}}, c[3], props);
                          else (void) H2.world()->properties(std::array<double,2> {{c[0], c[1]}}, c[2], props);
                          mism("twin", "row [" + fmt(c[0]) + "," + fmt(c[1]) + "," + fmt(c[2]) + "," + fmt(c[3]) + "]: the first world refuses the query, the twin answers it");
                        }
                      catch (const std::exception &) {}
                    }
                }
              continue;
            }
          (void) off;
          // "blocks": every property asked alone, and the list asked in reverse order, must give the blocks of the batched reply bit for bit
          if (!only_finite && s.HasMember("blocks") && s["blocks"].GetBool())
            {
              try
                {
                  size_t o = 0;
                  std::vector<size_t> offs;
                  for (size_t i = 0; i < props.size(); ++i)
                    {
                      const std::vector<std::array<unsigned int,3>> one(1, props[i]);
                      const std::vector<double> single = dim == 3 ? w.properties(std::array<double,3> {{c[0], c[1], c[2]}}, c[3], one)
                                                         : w.properties(std::array<double,2> {{c[0], c[1]}}, c[2], one);
                      ++stats.queries; ++stats.checks; ++stats.by_check["block-vs-single"];
                      offs.push_back(o);
                      bool same = o + single.size() <= out.size();
                      for (size_t k = 0; same && k < single.size(); ++k) same = bits(single[k]) == bits(out[o + k]);
                      if (!same)
                        mism("block-vs-single", "row [" + fmt(c[0]) + "," + fmt(c[1]) + "," + fmt(c[2]) + "," + fmt(c[3]) + "]: block " + std::to_string(i) + " of the batched reply differs from the property asked alone",
                             static_cast<long>(o), o < out.size() ? fmt(out[o]) : "", single.empty() ? "" : fmt(single[0]));
                      o += single.size();
                    }
                  if (o != out.size()) mism("block-vs-single", "the batched reply is not the concatenation of its blocks", -1, std::to_string(out.size()), std::to_string(o));
                  std::vector<std::array<unsigned int,3>> rev(props.rbegin(), props.rend());
                  const std::vector<double> r = dim == 3 ? w.properties(std::array<double,3> {{c[0], c[1], c[2]}}, c[3], rev)
                                                : w.properties(std::array<double,2> {{c[0], c[1]}}, c[2], rev);
                  ++stats.queries; ++stats.checks; ++stats.by_check["block-vs-reversed"];
                  size_t ro = 0;
                  bool same = r.size() == out.size();
                  for (size_t j = 0; same && j < rev.size(); ++j)
                    {
                      const size_t i = props.size() - 1 - j;
                      const size_t n = (i + 1 < props.size() ? offs[i + 1] : out.size()) - offs[i];
                      for (size_t k = 0; same && k < n; ++k) same = bits(r[ro + k]) == bits(out[offs[i] + k]);
                      ro += n;
                    }
                  if (!same) mism("block-vs-reversed", "row [" + fmt(c[0]) + "," + fmt(c[1]) + "," + fmt(c[2]) + "," + fmt(c[3]) + "]: the reply to the reversed list is not the reversed sequence of blocks");
                }
              catch (const std::exception &e) { mism("query", std::string("batched query answered, stand-alone query threw: ") + e.what()); }
            }
          if (only_finite)
            {
              ++stats.checks; ++stats.by_check["finite"];
              for (size_t i = 0; i < out.size(); ++i)
                if (!std::isfinite(out[i]))
                  { mism("finite", "row [" + fmt(c[0]) + "," + fmt(c[1]) + "," + fmt(c[2]) + "," + fmt(c[3]) + "]: non-finite value returned", static_cast<long>(i), fmt(out[i]), "finite"); break; }
              continue;
            }
          // "also2d": {x, z, rel, abs}: the same world asked through the 2D interface at (cell x, cell z) must answer the same
          if (!only_finite && s.HasMember("also2d") && dim == 3)
            {
              const Value &a2 = s["also2d"];
              const double x2 = c[a2["x"].GetUint()], z2 = c[a2["z"].GetUint()];
              const double rel2 = eval(a2["rel"]), abs2 = eval(a2["abs"]);
              ++stats.queries; ++stats.checks; ++stats.by_check["section-2d"];
              try
                {
                  const std::vector<double> o2 = w.properties(std::array<double,2> {{x2, z2}}, c[3], props);
                  bool same = o2.size() == out.size();
                  size_t where = 0;
                  for (size_t i = 0; same && i < out.size(); ++i)
                    if (!(std::fabs(out[i] - o2[i]) <= abs2 + rel2 * std::max(std::fabs(out[i]), std::fabs(o2[i])))) { same = false; where = i; }
                  if (!same)
                    mism("section-2d", "row [" + fmt(c[0]) + "," + fmt(c[1]) + "," + fmt(c[2]) + "," + fmt(c[3]) + "]: the 2D interface at (" + fmt(x2) + "," + fmt(z2) + ") answers differently",
                         static_cast<long>(where), where < o2.size() ? fmt(o2[where]) : "", where < out.size() ? fmt(out[where]) : "");
                }
              catch (const std::exception &e) { mism("section-2d", std::string("the 3D query is answered, the 2D query threw: ") + e.what()); }
            }
          // "subsets": {singles: [h...], names: [tag...], worlds: [[mask, h], ...]}: the worlds built from one feature each tell
          // which features contain the point (their tag is not -1); the world built from exactly those features (same order) must
          // answer bit for bit like the full world, and the full world's tag is the tag string of the last containing feature
          if (!only_finite && s.HasMember("subsets") && dim == 3)
            {
              const Value &ss = s["subsets"];
              const std::vector<std::array<unsigned int,3>> tagp(1, std::array<unsigned int,3> {{4, 0, 0}});
              const std::array<double,3> pt {{c[0], c[1], c[2]}};
              const std::string rowtxt = "row [" + fmt(c[0]) + "," + fmt(c[1]) + "," + fmt(c[2]) + "," + fmt(c[3]) + "]";
              try
                {
                  unsigned int mask = 0, k = 0; int top = -1; bool ok = true;
                  for (auto &hv : ss["singles"].GetArray())
                    {
                      Handle &S = handle(hv.GetInt());
                      if (!S.alive || !S.world()) { ok = false; break; }
                      ++stats.queries;
                      if (S.world()->properties(pt, c[3], tagp)[0] >= 0) { mask |= 1u << k; top = static_cast<int>(k); }
                      ++k;
                    }
                  if (ok)
                    {
                      const double tfull = w.properties(pt, c[3], tagp)[0];
                      const std::string got = tfull < 0 ? "-1" : (static_cast<size_t>(tfull) < w.feature_tags.size() ? w.feature_tags[static_cast<size_t>(tfull)] : "out of range");
                      const std::string want = top < 0 ? "-1" : ss["names"][static_cast<unsigned>(top)].GetString();
                      ++stats.queries; ++stats.checks; ++stats.by_check[mask == 0 ? "subset-background" : "subset-tag"];
                      if (got != want)
                        mism(mask == 0 ? "subset-background" : "subset-tag", rowtxt + ": the tag is not that of the last feature that contains the point on its own (containing set " + std::to_string(mask) + ")", -1, got, want);
                      if (mask == 0)
                        {
                          // no feature contains the point: the reply has the documented layout and, apart from the temperature, the
                          // background's values (compositions 0, grains all zero, velocity zero, tag -1)
                          ++stats.checks; ++stats.by_check["subset-background"];
                          size_t o = 0; bool shape = true; size_t where = 0; double wantv = 0.;
                          for (size_t i = 0; shape && i < props.size(); ++i)
                            {
                              const size_t n = props[i][0] == 3 ? 10 * static_cast<size_t>(props[i][2]) : (props[i][0] == 5 ? 3 : 1);
                              if (o + n > out.size()) { shape = false; where = o; break; }
                              if (props[i][0] != 1)
                                for (size_t j = 0; shape && j < n; ++j)
                                  {
                                    wantv = props[i][0] == 4 ? -1. : 0.;
                                    if (out[o + j] != wantv) { shape = false; where = o + j; }
                                  }
                              o += n;
                            }
                          if (shape && o != out.size()) { shape = false; where = o; }
                          if (!shape)
                            mism("subset-background", rowtxt + ": no feature contains the point, but the reply does not have the background's layout and values (length " + std::to_string(out.size()) + ")",
                                 static_cast<long>(where), where < out.size() ? fmt(out[where]) : "missing", fmt(wantv));
                        }
                      for (auto &mw : ss["worlds"].GetArray())
                        if (mw[0].GetUint() == mask)
                          {
                            Handle &R = handle(mw[1].GetInt());
                            if (!R.alive || !R.world()) continue;
                            const std::vector<double> o3 = R.world()->properties(pt, c[3], props);
                            ++stats.queries; ++stats.checks; ++stats.by_check[mask == 0 ? "subset-background" : "subset-paint"];
                            bool same = o3.size() == out.size();
                            size_t where = 0;
                            for (size_t i = 0; same && i < out.size(); ++i) if (bits(out[i]) != bits(o3[i])) { same = false; where = i; }
                            if (!same)
                              mism(mask == 0 ? "subset-background" : "subset-paint", rowtxt + ": the world made of the features that contain the point (set " + std::to_string(mask) + ") answers differently from the full world",
                                   static_cast<long>(where), where < out.size() ? fmt(out[where]) : "", where < o3.size() ? fmt(o3[where]) : "");
                          }
                    }
                }
              catch (const std::exception &e) { mism("subset-paint", rowtxt + ": the full world answers, a subset world threw: " + e.what()); }
            }
          if (s.HasMember("h2"))     // the same query on a twin world must give bit-identical values
            {
              Handle &H2 = handle(s["h2"].GetInt());
              if (H2.alive && H2.world())
                {
                  ++stats.queries; ++stats.checks; ++stats.by_check["twin"];
                  std::vector<double> out2;
                  // "pos2": the twin is asked at another position (cells pos2[0..2] = x, y, z or r, lon, lat), e.g. a moved world
                  double q[3] = {c[0], c[1], c[2]};
                  if (s.HasMember("pos2"))
                    {
                      for (int k = 0; k < 3; ++k) q[k] = c[s["pos2"][static_cast<rapidjson::SizeType>(k)].GetUint()];
                      if (sph_rows)
                        {
                          const double r = q[0], lon = q[1] * (PI / 180.), lat = q[2] * (PI / 180.);
                          q[0] = r * std::cos(lat) * std::cos(lon); q[1] = r * std::cos(lat) * std::sin(lon); q[2] = r * std::sin(lat);
                        }
                    }
                  try
                    {
                      if (H2.api == "c" && H2.cptr)        // the twin is a C-interface world: ask it through the C functions
                        {
                          std::vector<unsigned int> flat;
                          for (auto &pq : props) { flat.push_back(pq[0]); flat.push_back(pq[1]); flat.push_back(pq[2]); }
                          flat.resize(flat.size() + 3);
                          const unsigned int (*pp)[3] = reinterpret_cast<const unsigned int (*)[3]>(flat.data());
                          const unsigned int n = properties_output_size(H2.cptr, pp, static_cast<unsigned int>(props.size()));
                          out2.assign(n + 4, -7.25e300);
                          if (dim == 2) properties_2d(H2.cptr, q[0], q[1], c[2], pp, static_cast<unsigned int>(props.size()), out2.data());
                          else properties_3d(H2.cptr, q[0], q[1], q[2], c[3], pp, static_cast<unsigned int>(props.size()), out2.data());
                          for (unsigned int i = n; i < n + 4; ++i)
                            if (out2[i] != -7.25e300) mism("c-overrun", "C API wrote past the announced output size", i);
                          out2.resize(n);
                        }
                      else
                        out2 = dim == 3 ? H2.world()->properties(std::array<double,3> {{q[0], q[1], q[2]}}, c[3], props)
                               : H2.world()->properties(std::array<double,2> {{q[0], q[1]}}, c[2], props);
                    }
                  catch (const std::exception &e) { mism("query", std::string("twin query threw: ") + e.what()); }
                  bool same = out2.size() == out.size();
                  size_t where = 0;
                  const double trel = s.HasMember("twinrel") ? eval(s["twinrel"]) : -1., tabs = s.HasMember("twinabs") ? eval(s["twinabs"]) : 0.;
                  for (size_t i = 0; same && i < out.size(); ++i)
                    {
                      const bool eqv = trel < 0 ? bits(out[i]) == bits(out2[i])
                                       : std::fabs(out[i] - out2[i]) <= tabs + trel * std::max(std::fabs(out[i]), std::fabs(out2[i]));
                      if (!eqv) { same = false; where = i; }
                    }
                  stats.values += static_cast<long>(out.size());
                  // "jitter": a disagreement is only reported if the first world's own answer is stable in a small star around the
                  // point (the statement's "up to rounding": next to a boundary or a medial axis a rounding-size move legitimately
                  // changes the answer); dropped points are counted
                  if (!same && s.HasMember("jitter") && dim == 3 && !sph_rows)
                    {
                      const double jr = eval(s["jitter"]);
                      const double scale = std::max(1., std::max(std::fabs(c[0]), std::fabs(c[1])));
                      bool stable = true;
                      for (int k = 0; k < 4 && stable; ++k)
                        {
                          const double jx = c[0] + (k == 0 ? jr : k == 1 ? -jr : 0.) * scale, jy = c[1] + (k == 2 ? jr : k == 3 ? -jr : 0.) * scale;
                          const std::vector<double> o = w.properties(std::array<double,3> {{jx, jy, c[2]}}, c[3], props);
                          for (size_t i = 0; i < out.size() && stable; ++i)
                            stable = std::fabs(o[i] - out[i]) <= tabs + std::max(trel, 0.) * std::max(std::fabs(o[i]), std::fabs(out[i]));
                        }
                      if (!stable) { ++stats.by_check["twin-dropped-unstable"]; same = true; }
                    }
                  if (!same)
                    mism("twin", "row [" + fmt(c[0]) + "," + fmt(c[1]) + "," + fmt(c[2]) + "," + fmt(c[3]) + "]: the twin world answers differently",
                         static_cast<long>(where), where < out.size() ? fmt(out[where]) : "", where < out2.size() ? fmt(out2[where]) : "");
                }
            }
          if (!s.HasMember("checks")) continue;
          for (auto &e : s["checks"].GetArray())
            {
              const std::string k = e["k"].GetString();
              const long at = e["at"].GetInt64();
              // the expected value: a row cell ("col") or a variable bound by "rowlet" ("var")
              const double cell = e.HasMember("var") ? env().at(e["var"].GetString()) : c[e["col"].GetUint()];
              if (std::isnan(cell)) continue;          // null cell: nothing asserted for this row
              ++stats.checks; ++stats.by_check[k]; ++stats.values;
              double want = cell;
              if (k == "tagname")
                {
                  const Value &nm = e["names"][static_cast<rapidjson::SizeType>(cell)];
                  want = -1;
                  if (nm.IsString())
                    {
                      want = -2;
                      for (size_t i = 0; i < w.feature_tags.size(); ++i)
                        if (w.feature_tags[i] == nm.GetString()) want = static_cast<double>(i);
                    }
                }
              bool ok;
              if (k == "member")
                {
                  // cell = value of the membership function F (inside iff F <= 1); nothing is asserted
                  // within `margin` of the boundary
                  const double margin = e.HasMember("margin") ? eval(e["margin"]) : 1e-6;
                  if (std::fabs(cell - 1.) <= margin) { ++stats.by_check["member-skipped-near-boundary"]; continue; }
                  const bool inside = cell < 1.;
                  if (e.HasMember("tagname"))
                    {
                      want = -1;
                      if (inside)
                        for (size_t i = 0; i < w.feature_tags.size(); ++i)
                          if (w.feature_tags[i] == e["tagname"].GetString()) want = static_cast<double>(i);
                    }
                  else
                    want = inside ? eval(e["inside"]) : eval(e["outside"]);
                  ok = at < static_cast<long>(out.size()) && out[at] == want;
                }
              else if (k == "monotone")
                {
                  // along consecutive rows with the same group cell the value must not decrease (dir +1) / not increase (dir -1)
                  const std::string key = std::to_string(at) + "/" + e["dir"].GetString() + "/" + fmt(cell);
                  const double slack = (e.HasMember("slack") ? eval(e["slack"]) : 1e-9);
                  ok = true;
                  if (at < static_cast<long>(out.size()))
                    {
                      auto it = previous.find(key);
                      if (it != previous.end())
                        {
                          const double tol = slack * std::max(1., std::max(std::fabs(it->second), std::fabs(out[at])));
                          ok = std::string(e["dir"].GetString()) == "up" ? out[at] >= it->second - tol : out[at] <= it->second + tol;
                          want = it->second;
                        }
                      previous[key] = out[at];
                    }
                }
              else if (k == "between")
                {
                  // cell and the cell in column "col2" are the two end members: the value is a convex combination of them
                  const double other = c[e["col2"].GetUint()];
                  const double lo = std::min(cell, other), hi = std::max(cell, other);
                  const double slack = (e.HasMember("slack") ? eval(e["slack"]) : 1e-9) * std::max(1., std::max(std::fabs(lo), std::fabs(hi)));
                  want = lo;
                  ok = at < static_cast<long>(out.size()) && out[at] >= lo - slack && out[at] <= hi + slack;
                }
              else if (k == "sameweight")
                {
                  // two interpolated quantities of one point: value at `at` between cell and col2, value at `at2` between col3 and col4;
                  // both are convex combinations with the same weight (the section fraction of the point)
                  const double a0 = cell, a1 = c[e["col2"].GetUint()], b0 = c[e["col3"].GetUint()], b1 = c[e["col4"].GetUint()];
                  const long at2 = e["at2"].GetInt64();
                  if (a0 != a1 && b0 != b1 && at < static_cast<long>(out.size()) && at2 < static_cast<long>(out.size()))
                    {
                      const double wa = (out[at] - a0) / (a1 - a0), wb = (out[at2] - b0) / (b1 - b0);
                      want = wb;
                      ok = std::fabs(wa - wb) <= (e.HasMember("tol") ? eval(e["tol"]) : 1e-9);
                      if (!ok)
                        {
                          mism(k, "row [" + fmt(c[0]) + "," + fmt(c[1]) + "," + fmt(c[2]) + "," + fmt(c[3]) + "]: two quantities of one point are interpolated with different weights between the neighbouring sections",
                               at, fmt(wa), fmt(wb));
                          continue;
                        }
                    }
                  else ok = true;
                }
              else if (k == "tol")
                {
                  const double rel = e.HasMember("rel") ? eval(e["rel"]) : 0., abs_ = e.HasMember("abs") ? eval(e["abs"]) : 0.;
                  ok = at < static_cast<long>(out.size()) && std::fabs(out[at] - want) <= abs_ + rel *std::max(std::fabs(out[at]), std::fabs(want));
                }
              else
                ok = at < static_cast<long>(out.size()) && out[at] == want;
              if (!ok)
                mism(k, "row [" + fmt(c[0]) + "," + fmt(c[1]) + "," + fmt(c[2]) + "," + fmt(c[3]) + "]: value differs from the specification's",
                         at, at < static_cast<long>(out.size()) ? fmt(out[at]) : "missing", fmt(want));
            }
        }
    }

    // many distance_to_plane calls: rows = [x, y, z, depth, from | null, along | null]
    void do_dtable(const Value &s)
    {
      Handle &H = handle(s["h"].GetInt());
      if (!H.alive || !H.world()) { ++stats.skipped_steps; return; }
      const double rel = s.HasMember("rel") ? eval(s["rel"]) : 1e-6, abs_ = s.HasMember("abs") ? eval(s["abs"]) : 1.;
      const std::string name = s["name"].GetString();
      for (auto &row : s["rows"].GetArray())
        {
          std::vector<double> c;
          for (auto &cell : row.GetArray()) c.push_back((cell.IsNull() || (cell.IsObject() && cell.HasMember("null"))) ? std::nan("") : eval(cell));
          ++stats.queries;
          try
            {
              const auto d = H.world()->distance_to_plane({{c[0], c[1], c[2]}}, c[3], name);
              const double got[2] = {d.get_distance_from_surface(), d.get_distance_along_surface()};
              for (int k = 0; k < 2; ++k)
                {
                  if (std::isnan(c[4 + k])) continue;
                  ++stats.checks; ++stats.by_check[k == 0 ? "distance-from" : "distance-along"]; ++stats.values;
                  if (!std::isfinite(got[k]) || !(std::fabs(got[k] - c[4 + k]) <= abs_ + rel * std::max(std::fabs(got[k]), std::fabs(c[4 + k]))))
                    mism(k == 0 ? "distance-from" : "distance-along",
                         "row [" + fmt(c[0]) + "," + fmt(c[1]) + "," + fmt(c[2]) + "," + fmt(c[3]) + "]: distance differs from the planar construction", k, fmt(got[k]), fmt(c[4 + k]));
                }
            }
          catch (const std::exception &e)
            {
              mism("query", std::string("distance_to_plane threw: ") + e.what());
            }
        }
    }

    // construct-then-query table: every row binds $0.. to its cells; x, y, depth are terms over them; the point is
    // (x, y, height - depth); distance_to_plane must return the terms "from" / "along", and the tag must be that of the
    // feature iff the row's last cell is 1
    void do_atable(const Value &s)
    {
      Handle &H = handle(s["h"].GetInt());
      if (!H.alive || !H.world()) { ++stats.skipped_steps; return; }
      World &w = *H.world();
      const double rel = eval(s["rel"]), abs_ = eval(s["abs"]);
      const std::string name = s["name"].GetString();
      env().clear();
      for (auto &b : s["let"].GetArray()) env()[b[0].GetString()] = eval(b[1]);
      const auto props = get_props(s["props"]);
      for (auto &row : s["rows"].GetArray())
        {
          std::vector<double> c;
          for (auto &cell : row.GetArray()) c.push_back(eval(cell));
          for (size_t i = 0; i < c.size(); ++i) env()["$" + std::to_string(i)] = c[i];
          const double x = eval(s["x"]), y = eval(s["y"]), depth = eval(s["depth"]), z = eval(s["height"]) - depth;
          const double want[2] = {eval(s["from"]), eval(s["along"])};
          ++stats.queries;
          try
            {
              const auto d = w.distance_to_plane({{x, y, z}}, depth, name);
              const double got[2] = {d.get_distance_from_surface(), d.get_distance_along_surface()};
              for (int k = 0; k < 2; ++k)
                {
                  ++stats.checks; ++stats.by_check[k == 0 ? "distance-from" : "distance-along"]; ++stats.values;
                  if (!std::isfinite(got[k]) || !(std::fabs(got[k] - want[k]) <= abs_ + rel * std::max(std::fabs(got[k]), std::fabs(want[k]))))
                    mism(k == 0 ? "distance-from" : "distance-along",
                         "constructed point [" + fmt(x) + "," + fmt(y) + "," + fmt(z) + "," + fmt(depth) + "] (t=" + fmt(c[0]) + " km, d=" + fmt(c[1]) + " km)", k, fmt(got[k]), fmt(want[k]));
                }
              const std::vector<double> out = w.properties(std::array<double,3> {{x, y, z}}, depth, props);
              double tagwant = -1;
              // membership also needs min depth <= depth <= max depth (decided here: the constructed depth is a transcendental term)
              const double mind = s.HasMember("mindepth") ? eval(s["mindepth"]) : 0., maxd = s.HasMember("maxdepth") ? eval(s["maxdepth"]) : 1e300;
              if (std::fabs(depth - mind) < 1. || std::fabs(depth - maxd) < 1.) continue;
              if (c.back() != 0. && depth >= mind && depth <= maxd)
                for (size_t i = 0; i < w.feature_tags.size(); ++i)
                  if (w.feature_tags[i] == s["tagname"].GetString()) tagwant = static_cast<double>(i);
              ++stats.queries; ++stats.checks; ++stats.by_check["tagname"];
              if (out.empty() || out[0] != tagwant)
                mism("tagname", "constructed point (t=" + fmt(c[0]) + " km, d=" + fmt(c[1]) + " km): membership", 0, out.empty() ? "" : fmt(out[0]), fmt(tagwant));
            }
          catch (const std::exception &e) { mism("query", std::string("threw: ") + e.what()); }
        }
    }

    void do_size(const Value &s)
    {
      Handle &H = handle(s["h"].GetInt());
      if (!H.alive) { ++stats.skipped_steps; return; }
      const auto props = get_props(s["props"]);
      unsigned int n = 0;
      if (H.api == "c")
        {
          std::vector<unsigned int> flat;
          for (auto &q : props) { flat.push_back(q[0]); flat.push_back(q[1]); flat.push_back(q[2]); }
          flat.resize(flat.size() + 3);
          n = properties_output_size(H.cptr, reinterpret_cast<const unsigned int (*)[3]>(flat.data()), static_cast<unsigned int>(props.size()));
        }
      else if (H.world()) n = H.world()->properties_output_size(props);
      else { ++stats.skipped_steps; return; }
      ++stats.checks; ++stats.by_check["announced"];
      if (n != s["n"].GetUint())
        mism("announced", "announced output size", -1, std::to_string(n), std::to_string(s["n"].GetUint()));
    }

    // distance_to_plane: expect "from"/"along" as tol checks
    void do_dist(const Value &s)
    {
      Handle &H = handle(s["h"].GetInt());
      if (!H.alive || !H.world()) { ++stats.skipped_steps; return; }
      const std::vector<double> p = get_point(s);
      ++stats.queries;
      try
        {
          auto d = H.world()->distance_to_plane({{p[0], p[1], p[2]}}, eval(s["depth"]), s["name"].GetString());
          std::vector<double> out = {d.get_distance_from_surface(), d.get_distance_along_surface()};
          if (s.HasMember("save")) (global ? global_saves : saves)[s["save"].GetString()] = out;
          check_expectations(s, H, out);
        }
      catch (const std::exception &e)
        {
          if (!(s.HasMember("may_throw") && s["may_throw"].GetBool()))
            mism("query", std::string("distance_to_plane threw: ") + e.what());
        }
    }

    // engine position: the world's mt19937 must equal a shadow engine seeded with the effective seed
    // and advanced by `draws` doubles (generate_canonical<double,53> on mt19937 = 2 words per double)
    void do_engine(const Value &s)
    {
      Handle &H = handle(s["h"].GetInt());
      if (!H.alive || !H.world()) { ++stats.skipped_steps; return; }
      std::mt19937 shadow(static_cast<unsigned int>(eval(s["seed"])));
      const long words = s.HasMember("words") ? s["words"].GetInt64() : 0;
      shadow.discard(static_cast<unsigned long long>(words));
      ++stats.checks; ++stats.by_check["engine"];
      if (!(H.world()->get_random_number_engine() == shadow))
        mism("engine", "random engine is not at seed " + fmt(eval(s["seed"])) + " + " + std::to_string(words) + " words");
    }

    void kernel(const Value &s);

    void run(const Value &b, Document &owner)
    {
      global = b.HasMember("global") && b["global"].GetBool();
      const Value &steps = b["steps"];
      for (rapidjson::SizeType i = 0; i < steps.Size(); ++i)
        {
          const Value &s = steps[i];
          cur_step = static_cast<int>(i);
          cur_op = s["op"].GetString();
          ++stats.steps;
          if (cur_op == "defdoc") global_docs[s["name"].GetString()] = write_doc(s["wb"], owner, s["name"].GetString());
          else if (cur_op == "deftargets") global_targets[s["name"].GetString()] = dump(s["targets"]);
          else if (cur_op == "defsave")        // a reference value computed elsewhere (another process)
            {
              std::vector<double> v;
              for (auto &x : s["v"].GetArray()) v.push_back(x.GetDouble());
              global_saves[s["name"].GetString()] = v;
            }
          else if (cur_op == "defpath") global_docs[s["name"].GetString()] = s["path"].GetString();
          else if (cur_op == "create") do_create(s, owner);
          else if (cur_op == "mkdir") { mkdir(s["path"].GetString(), 0777); }
          else if (cur_op == "exists")
            {
              struct stat st;
              const bool ex = stat(s["path"].GetString(), &st) == 0;
              ++stats.checks; ++stats.by_check["exists"];
              if (ex != s["want"].GetBool())
                mism("exists", std::string("file ") + s["path"].GetString() + (ex ? " exists" : " does not exist"), -1, ex ? "exists" : "missing", s["want"].GetBool() ? "exists" : "missing");
              if (ex && s.HasMember("remove") && s["remove"].GetBool()) unlink(s["path"].GetString());
            }
          else if (cur_op == "release") do_release(s);
          else if (cur_op == "q") do_query(s);
          else if (cur_op == "qtable") do_qtable(s);
          else if (only_finite && (cur_op == "dtable" || cur_op == "atable" || cur_op == "size" || cur_op == "dist")) ++stats.skipped_steps;   // internal sentinels (inf = no foot) are not public query results
          else if (cur_op == "dtable") do_dtable(s);
          else if (cur_op == "atable") do_atable(s);
          else if (cur_op == "size") do_size(s);
          else if (cur_op == "dist") do_dist(s);
          else if (cur_op == "engine") do_engine(s);
          else kernel(s);
        }
      for (auto &h : local_handles)
        if (h.second.alive && h.second.api == "c" && h.second.cptr) release_world(h.second.cptr);
      local_handles.clear();
    }
  };

#include "kernels.inc"
}

int main(int argc, char **argv)
{
  if (argc < 2) { std::cerr << "usage: replay file.ndjson [--from K] [--tmp DIR] [--timeout S]\n"; return 2; }
  long from = 0;
  unsigned int timeout_s = 20;
  for (int i = 2; i + 1 < argc; i += 2)
    {
      const std::string a = argv[i];
      if (a == "--from") from = std::atol(argv[i+1]);
      else if (a == "--tmp") tmpdir = argv[i+1];
      else if (a == "--timeout") timeout_s = static_cast<unsigned int>(std::atoi(argv[i+1]));
      else if (a == "--dump") dump_saves = std::atoi(argv[i+1]) != 0;
      else if (a == "--only-finite") only_finite = std::atoi(argv[i+1]) != 0;
      else if (a == "--interfere") interfere = static_cast<size_t>(std::atoi(argv[i+1]));
    }
  {
    // private working directory: relative output directories of create_world land here
    const std::string wd = tmpdir + "/cwd" + std::to_string(getpid());
    mkdir(wd.c_str(), 0777);
    if (chdir(wd.c_str()) != 0) { std::cerr << "cannot chdir to " << wd << "\n"; return 2; }
  }
  // the per-behaviour limit counts the CPU time of this process (ITIMER_PROF), not wall-clock time: a loaded machine
  // must not turn a slow run into a "does not terminate" report; a generous wall-clock alarm remains as a back-stop
  std::signal(SIGALRM, on_alarm);
  std::signal(SIGPROF, on_alarm);
  std::set_terminate(on_terminate);
  std::ifstream in(argv[1]);
  if (!in) { std::cerr << "cannot open " << argv[1] << "\n"; return 2; }
  std::string line;
  long index = -1;
  try
    {
      while (std::getline(in, line))
        {
          if (line.empty()) continue;
          ++index;
          Document d;
          d.Parse<rapidjson::kParseFullPrecisionFlag>(line.c_str());
          if (d.HasParseError())
            throw HarnessError("behaviour " + std::to_string(index) + ": JSON parse error: " + rapidjson::GetParseError_En(d.GetParseError()));
          const bool global = d.HasMember("global") && d["global"].GetBool();
          if (index < from && !global) continue;
          cur_index = index;
          cur_id = d.HasMember("id") ? (d["id"].IsString() ? std::string(d["id"].GetString()) : dump(d["id"])) : std::to_string(index);
          cur_labels = d.HasMember("labels") ? dump(d["labels"]) : "[]";
          mismatches_this_behaviour = 0;
          std::cout << "@ " << index << std::endl;
          {
            struct itimerval tv; std::memset(&tv, 0, sizeof tv); tv.it_value.tv_sec = timeout_s;
            setitimer(ITIMER_PROF, &tv, nullptr);
            alarm(timeout_s * 20);
          }
          Runner r;
          r.run(d, d);
          {
            struct itimerval tv; std::memset(&tv, 0, sizeof tv);
            setitimer(ITIMER_PROF, &tv, nullptr);
            alarm(0);
          }
          ++stats.behaviours;
        }
    }
  catch (const HarnessError &e)
    {
      std::cout << "H " << jstr(std::string("harness error at behaviour ") + std::to_string(index) + " step " + std::to_string(cur_step) + ": " + e.what()) << std::endl;
      return 5;
    }
  std::cout << "S {\"behaviours\":" << stats.behaviours << ",\"steps\":" << stats.steps << ",\"worlds\":" << stats.worlds
            << ",\"queries\":" << stats.queries << ",\"values\":" << stats.values << ",\"checks\":" << stats.checks
            << ",\"mismatches\":" << stats.mismatches << ",\"skipped_steps\":" << stats.skipped_steps
            << ",\"threw_create\":" << stats.threw_create << ",\"threw_query\":" << stats.threw_query
            << ",\"kernel_calls\":" << stats.kernel_calls << ",\"environment_queries\":" << decoy_queries << ",\"by_check\":{";
  bool first = true;
  for (auto &kv : stats.by_check) { std::cout << (first ? "" : ",") << jstr(kv.first) << ":" << kv.second; first = false; }
  std::cout << "}}" << std::endl;
  return 0;
}
